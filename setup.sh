#!/bin/sh
# Offline: installs icontract (+ deps) beside the repository's interpreter.
cd "$(dirname "$0")" || exit 2
if [ ! -d .deps/icontract ]; then
  PIP_NO_INDEX=1 /venv/bin/pip install --quiet --no-index --find-links /opt/veriftools/wheels --target .deps icontract || exit 1
fi
exit 0
