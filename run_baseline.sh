#!/bin/sh
# Runs the repository's pinned test suite with the verification guard OFF and
# prints the pass/fail counts (expected: 186 passed, 2 failed = the two
# always-failing tests script_test and trace_test).
cd /repo || exit 2
env -u AL_FONTES_JR_BARDOLPH_VERIF /venv/bin/python -m pytest -ra -q -p no:cacheprovider --timeout=900 --continue-on-collection-errors "$@"
