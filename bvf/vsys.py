"""The production Clock + Machine + ScriptJob + JobControl under the controlled
scheduler with virtual time (used by C09 and C10)."""
from bvf import env, sched, simnet
from bardolph.controller import script_job
from bardolph.lib import clock, job_control
from bardolph.vm import machine

clock.time = sched.VTime
clock.threading = sched.shim_threading
clock.datetime = sched.VDatetime
job_control.threading = sched.shim_threading
sched.install()
sched.instrument_module(job_control)
sched.instrument_module(clock)
sched.instrument_module(script_job)
sched.instrument_module(machine, only={'run', 'stop', 'reset', '_wait'})

SCRIPT_THREAD = 'Agent._execute_and_call'
CLOCK_THREAD = 'Clock.run'


def configure(devices, tick, output='rec', overrides=None, tick_as_text=False):
    # (a configuration file delivers its values as text)
    conf = {'sleep_time': repr(tick) if tick_as_text else tick,
            'manifest_file_name': None}
    conf.update(overrides or {})
    env.configure(simnet.make_devices(devices), clock='real', output=output,
                  overrides=conf)


def minute_of_day():
    now = sched.VDatetime.peek()
    return now.hour * 60 + now.minute


class ClockProbe:
    """wraps one Clock instance (instance attributes only) and records the
    virtual instants of its calls and of the ticks"""

    def __init__(self, clk, events):
        self.clk, self.ev = clk, events
        orig_pf, orig_wu, orig_reset = clk.pause_for, clk.wait_until, clk.reset
        orig_stop = clk.stop

        def pause_for(d):
            events.append(('pf_enter', sched.S.vnow, d))
            try:
                return orig_pf(d)
            finally:
                events.append(('pf_exit', sched.S.vnow, d, clk._keep_going))

        class Checked:
            """the pattern handed to the clock, every check recorded"""
            def __init__(self, inner):
                self.inner = inner

            def match(self, hour, minute):
                res = self.inner.match(hour, minute)
                events.append(('match', sched.S.vnow, hour * 60 + minute,
                               bool(res)))
                return res

        def wait_until(p):
            table = frozenset(h * 60 + m for h in range(24) for m in range(60)
                              if p.match(h, m))
            events.append(('wu_enter', sched.S.vnow, table))
            try:
                return orig_wu(Checked(p))
            finally:
                events.append(('wu_exit', sched.S.vnow, minute_of_day(),
                               clk._keep_going))

        def reset():
            r = orig_reset()
            events.append(('reset', sched.S.vnow))
            return r

        def stop():
            events.append(('clock_stop', sched.S.vnow))
            return orig_stop()
        clk.pause_for, clk.wait_until, clk.reset = pause_for, wait_until, reset
        clk.stop = stop
        ev = clk._event
        ev.on_fire = lambda waiters: events.append(
            ('fire', sched.S.vnow, waiters))
        ev.on_wait = lambda name: events.append(
            ('wait', sched.S.vnow, name, sched.S.steps))


def minute_of(t):
    """minute of the virtual day at virtual second t"""
    import datetime as dt
    now = sched.VDatetime.base + dt.timedelta(seconds=t)
    return now.hour * 60 + now.minute
