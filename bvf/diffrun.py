"""Differential execution: one generated program on the real compiler/VM under
the monitors, its event log checked online by the reference interpreter."""
from bvf import env, refmodel, render, simnet
from bvf.runner import run_script
from bvf.props.c11 import spec_table

OK, UNDECIDABLE, REJECTED, ABORT, MISMATCH, RANGE, THREAD, COMPILER_CRASH = (
    'ok', 'undecidable', 'rejected', 'abort', 'mismatch', 'range', 'thread',
    'compiler-crash')
NONTERM = 'nontermination'
IMAGE = 'image-invariant'
VMFAULT = 'vm-automaton'


class Outcome:
    def __init__(self, verdict, detail='', stats=None, run=None, events=0):
        self.verdict, self.detail = verdict, detail
        self.stats = stats or {}
        self.run = run
        self.events = events

    def __repr__(self):
        return 'Outcome({}, {})'.format(self.verdict, self.detail[:300])


def setup(pop_descs, **kw):
    env.configure(simnet.make_devices(pop_descs), **kw)


def judge(prog, pop_descs, decisions, run, hoist=False):
    """Run the reference interpreter over the recorded log of `run`."""
    if run.compile_exc is not None:
        return Outcome(COMPILER_CRASH, repr(run.compile_exc), run=run)
    if not run.accepted:
        return Outcome(REJECTED, run.errors.strip(), run=run)
    if run.image_faults:
        return Outcome(IMAGE, '; '.join(run.image_faults[:3]), run=run)
    if run.budget_exhausted:
        return Outcome(NONTERM, 'instruction budget exhausted: the script '
                       'did not terminate', run=run)
    actual = refmodel.stream_of(run.log)
    ref = None
    try:
        ref = refmodel.check(prog, refmodel.Population(pop_descs), decisions,
                             actual, spec_table=spec_table, hoist=hoist)
    except refmodel.Undecidable as ex:
        return Outcome(UNDECIDABLE, str(ex), {}, run, len(actual))
    except refmodel.Mismatch as ex:
        ref = ex.ref
        extra = ''
        if run.stops:
            extra = ' [VM aborted: {} {} at {}]'.format(
                run.stops[0][1], run.stops[0][2],
                run.stops[0][3][-1] if run.stops[0][3] else '?')
        return Outcome(MISMATCH, str(ex) + extra, ref.stats, run, len(actual))
    if run.stops:
        return Outcome(ABORT, 'VM aborted: {} {} at {}'.format(
            run.stops[0][1], run.stops[0][2],
            run.stops[0][3][-1] if run.stops[0][3] else '?'),
            ref.stats, run, len(actual))
    if run.range:
        return Outcome(RANGE, repr(run.range[:3]), ref.stats, run, len(actual))
    if run.leftovers and not (run.mon is not None and run.mon.exhausted):
        return Outcome(VMFAULT, 'run ended with ' + '; '.join(run.leftovers),
                       ref.stats, run, len(actual))
    if run.mon is not None and run.mon.faults:
        return Outcome(VMFAULT, '; '.join(run.mon.faults[:3]), ref.stats, run,
                       len(actual))
    if run.fp_changed:
        return Outcome(VMFAULT, 'execution changed the compiled program',
                       ref.stats, run, len(actual))
    if run.thread_exc:
        return Outcome(THREAD, repr(run.thread_exc[:2]), ref.stats, run,
                       len(actual))
    return Outcome(OK, '', ref.stats, run, len(actual))


def execute(prog, pop_descs, decisions, text=None, configure=True,
            monitor=False, hoist=False, made_under=None, **kw):
    if text is None:
        text = render.canonical(render.tokens(prog))
    job = None
    if made_under is not None:
        # the job object is made while another population (another light
        # directory object) is in place, and runs after the real one has
        # been configured: a job sees the lights there are when it runs
        from bardolph.controller.script_job import ScriptJob
        setup(made_under, **kw)
        try:
            job = ScriptJob.from_string(text)
        except Exception:
            job = None
    if configure:
        setup(pop_descs, **kw)
    run = run_script(text, decisions, monitor=monitor, job=job)
    out = judge(prog, pop_descs, decisions, run, hoist=hoist)
    out.text = text
    return out


def classify(outcome):
    """mechanism key for a violation: verdict + the kind of the first
    disagreement + innermost repository frame for aborts"""
    d = outcome.detail
    if outcome.verdict == MISMATCH:
        kind = d.split(':', 1)[0]
        if '[VM aborted' in d:
            return 'mismatch-after-abort:' + d.split('[VM aborted: ')[1].split(' ')[0]
        return 'mismatch:' + kind
    if outcome.verdict == ABORT:
        return 'abort:' + d.split(' ')[2]
    if outcome.verdict in (IMAGE, VMFAULT):
        import re
        return outcome.verdict + ':' + re.sub(r'[0-9#]+', 'N', d)[:60]
    return outcome.verdict
