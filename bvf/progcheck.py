"""Shared driver for the checks whose cases are generated programs judged by
the reference interpreter (C01, C03, C04, C15, ...)."""
from bvf import diffrun, gen, render
from bvf.harness import sig


def shape(node, depth=0):
    """AST shape: statement/expression tags only (for distinctness)"""
    if isinstance(node, list):
        if node and isinstance(node[0], str) and depth < 12:
            return [node[0]] + [shape(x, depth + 1) for x in node[1:]
                                if isinstance(x, (list, dict))]
        return [shape(x, depth + 1) for x in node if isinstance(x, (list, dict))]
    if isinstance(node, dict):
        return [shape(v, depth + 1) for _, v in sorted(node.items())
                if isinstance(v, (list, dict))]
    return None


def one_case(ctx, i, prof, kind, layout_fuzz=False, required_tags=None,
             pop_fn=None, prog_fn=None, made_under=None):
    rng = ctx.rng(kind, i)
    pop = (pop_fn or gen.random_population)(rng)
    try:
        if prog_fn is not None:
            prog, tags, decisions = prog_fn(rng, pop)
        else:
            prog, tags, decisions = gen.generate(rng, pop, prof)
    except gen.TooBig:
        ctx.count('generator_too_big')
        return None
    toks = render.tokens(prog, rng, redundant=0.25, brace_single=0.1)
    text = render.canonical(toks)
    out = diffrun.execute(prog, pop, decisions, text,
                          made_under=made_under(rng) if made_under else None)
    out.prog, out.pop, out.decisions, out.tags = prog, pop, decisions, tags
    return out


def account(ctx, out, kind, min_events=1):
    """verdict bookkeeping shared by the program-based checks"""
    v = out.verdict
    ctx.count('verdict:' + v)
    replay = {'kind': kind, 'script': out.text, 'population': out.pop,
              'decisions': out.decisions, 'program': out.prog}
    if v == diffrun.OK:
        for k, n in out.stats.items():
            ctx.count(k, n)
        for t in out.tags:
            ctx.count('tag:' + t)
        ctx.case(sig([shape(out.prog), sorted(out.tags)]),
                 nontrivial=out.events >= min_events)
        return True
    if v == diffrun.UNDECIDABLE:
        ctx.evaluations += 1
        ctx.count('undecidable:' + out.detail[:40])
        return False
    ctx.case(sig(out.text), nontrivial=True)
    mech = diffrun.classify(out)
    if v == diffrun.REJECTED:
        mech = 'rejected:' + out.detail.split(':', 1)[-1].strip()[:30]
    ctx.violation(mech, '{} | script: {}'.format(out.detail, out.text[:700]),
                  replay)
    return False


def replay_doc(doc):
    r = doc['replay']
    out = diffrun.execute(r['program'], r['population'], r['decisions'],
                          r['script'])
    print(r['script'])
    print(out)
    return 0 if out.verdict in (diffrun.OK, diffrun.UNDECIDABLE) else 1
