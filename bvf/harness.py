"""Shard orchestration, verdict discipline, evidence files, known findings.

A property module (bvf/props/cXX.py) provides:
    ID, LEVEL, RULE, ASSUMPTIONS
    SHARDS = {'quick': n, 'thorough': n}
    def run_shard(ctx)               # explore; report through ctx
    def finalize(merged) -> None     # optional cross-shard verdicts
    def replay(doc) -> int           # optional
"""
import hashlib
import importlib
import json
import os
import random
import subprocess
import sys
import time
import traceback

VERIF = os.path.dirname(os.path.dirname(os.path.abspath(__file__)))
PY = '/venv/bin/python'
MAX_PAR = int(os.environ.get('VERIF_JOBS', os.cpu_count() or 4))


def jdefault(o):
    if isinstance(o, (set, frozenset)):
        return sorted(o, key=repr)
    if isinstance(o, tuple):
        return list(o)
    return repr(o)


def dumps(o, **kw):
    return json.dumps(o, default=jdefault, **kw)


def sig(obj):
    return hashlib.blake2b(dumps(obj, sort_keys=True).encode(),
                           digest_size=8).hexdigest()


class Ctx:
    """Per-shard reporting context."""

    def __init__(self, prop, tier, seed, shard, nshards):
        self.prop, self.tier, self.seed = prop, tier, seed
        self.shard, self.nshards = shard, nshards
        self.evaluations = 0
        self.sigs = set()
        self.enumerated = 0     # distinct-by-construction cases (enumerations)
        self.counters = {}
        self.samples = []
        self.violations = []
        self.known = {}
        self.inconclusive = []
        self.extra = {}
        self.t0 = time.time()

    def rng(self, *key):
        return random.Random('{}/{}/{}'.format(
            self.seed, self.prop, '/'.join(str(k) for k in key)))

    def mine(self, i):
        return i % self.nshards == self.shard

    def case(self, signature=None, nontrivial=True):
        self.evaluations += 1
        if nontrivial and signature is not None:
            self.sigs.add(signature if isinstance(signature, str)
                          else sig(signature))

    def cases_enumerated(self, n, nontrivial=None):
        """n cases from an enumeration without repetition (distinct by
        construction); `nontrivial` of them count as non-trivial."""
        self.evaluations += n
        self.enumerated += n if nontrivial is None else nontrivial

    def count(self, name, n=1):
        self.counters[name] = self.counters.get(name, 0) + n

    def sample(self, obj, cap=2):
        if len(self.samples) < cap:
            self.samples.append(obj)

    def violation(self, mech, what, replay=None):
        """mech: mechanism key (compared with known_findings.json keys)."""
        self.count('violations_raw')
        self.count('violation:' + mech)
        if sum(1 for v in self.violations if v['mech'] == mech) < 3:
            self.violations.append(
                {'mech': mech, 'what': what, 'replay': replay})

    def known_finding(self, key, what):
        self.known[key] = what

    def set_inconclusive(self, why):
        self.inconclusive.append(why)

    def result(self):
        return {
            'shard': self.shard, 'evaluations': self.evaluations,
            'sigs': sorted(self.sigs), 'enumerated': self.enumerated,
            'counters': self.counters,
            'samples': self.samples, 'violations': self.violations,
            'known': self.known, 'inconclusive': self.inconclusive,
            'extra': self.extra, 'wall_s': time.time() - self.t0}


def load_prop(prop):
    return importlib.import_module('bvf.props.' + prop.lower())


def worker_main(argv):
    prop, tier, seed, shard, nshards, out = argv
    try:
        # a generated script may compute something enormous (a tower of
        # powers): that is the script's own error, and it must not take the
        # machine with it -- 6 GB of address space per shard is ample
        import resource
        resource.setrlimit(resource.RLIMIT_AS, (6 << 30, 6 << 30))
    except (ImportError, ValueError, OSError):
        pass
    mod = load_prop(prop)
    ctx = Ctx(prop, tier, int(seed), int(shard), int(nshards))
    try:
        mod.run_shard(ctx)
    except BaseException:
        ctx.set_inconclusive('shard {} crashed: {}'.format(
            shard, traceback.format_exc()[-500:]))
    with open(out, 'w') as f:
        f.write(dumps(ctx.result()))
    return 0


def load_known(prop):
    path = os.path.join(VERIF, 'known_findings.json')
    try:
        with open(path) as f:
            doc = json.load(f)
    except FileNotFoundError:
        return {}
    return {e['key']: e for e in doc.get('findings', [])
            if e.get('property') == prop and e.get('status') == 'open'}


def run_check(prop, tier):
    t0 = time.time()
    mod = load_prop(prop)
    seed = int(os.environ.get('VERIF_SEED', '0') or 0)
    nshards = mod.SHARDS[tier]
    tmpdir = os.path.join(VERIF, '.work', '{}-{}-{}'.format(prop, tier, os.getpid()))
    os.makedirs(tmpdir, exist_ok=True)
    env = dict(os.environ)
    env['PYTHONHASHSEED'] = '0'
    env['PYTHONPATH'] = VERIF
    env['PYTHONDONTWRITEBYTECODE'] = '1'
    timeout = getattr(mod, 'TIMEOUT', {'quick': 900, 'thorough': 7200})[tier]
    pending = list(range(nshards))
    running = {}
    results = []
    inconclusive = []
    attempts = {}
    while pending or running:
        while pending and len(running) < MAX_PAR:
            s = pending.pop(0)
            out = os.path.join(tmpdir, 'shard{}.json'.format(s))
            if os.path.exists(out):
                os.unlink(out)
            logf = open(os.path.join(tmpdir, 'shard{}.log'.format(s)), 'w')
            p = subprocess.Popen(
                [PY, '-m', 'bvf.worker', prop, tier, str(seed), str(s),
                 str(nshards), out],
                cwd=VERIF, env=env, stdout=logf, stderr=subprocess.STDOUT)
            running[s] = (p, out, time.time(), logf)
            attempts[s] = attempts.get(s, 0) + 1
        time.sleep(0.05)
        for s, (p, out, st, logf) in list(running.items()):
            rc = p.poll()
            limit = timeout * attempts[s]
            if rc is None and time.time() - st > limit:
                p.kill()
                p.wait()
                rc = -9
            if rc is None:
                continue
            logf.close()
            del running[s]
            if rc == 0 and os.path.exists(out):
                with open(out) as f:
                    results.append(json.load(f))
            elif attempts[s] < 2:
                pending.append(s)
            else:
                tail = ''
                try:
                    with open(logf.name) as f:
                        tail = f.read()[-600:]
                except OSError:
                    pass
                inconclusive.append('shard {} rc={} {}'.format(s, rc, tail))

    merged = {
        'evaluations': sum(r['evaluations'] for r in results),
        'sigs': set(), 'counters': {}, 'samples': [], 'violations': [],
        'known': {}, 'inconclusive': list(inconclusive), 'extra': {},
        'tier': tier, 'seed': seed}
    for r in sorted(results, key=lambda r: r['shard']):
        merged['sigs'].update(r['sigs'])
        for k, v in r['counters'].items():
            merged['counters'][k] = merged['counters'].get(k, 0) + v
        merged['samples'].extend(r['samples'][:1] if len(merged['samples']) >= 4
                                 else r['samples'])
        merged['violations'].extend(r['violations'])
        merged['known'].update(r['known'])
        merged['inconclusive'].extend(r['inconclusive'])
        for k, v in r['extra'].items():
            merged['extra'].setdefault(k, []).append(v)
    merged['samples'] = merged['samples'][:8]

    if hasattr(mod, 'finalize'):
        try:
            mod.finalize(merged)
        except Exception:
            merged['inconclusive'].append(
                'finalize crashed: ' + traceback.format_exc()[-800:])

    known = load_known(prop)
    exit_code = 0
    lines = []
    seen_known = set()
    unlisted = []
    for v in merged['violations']:
        if v['mech'] in known:
            seen_known.add(v['mech'])
        else:
            unlisted.append(v)
    for key, what in merged['known'].items():
        if key in known:
            seen_known.add(key)
        else:
            unlisted.append({'mech': key, 'what': what, 'replay': None})
    for key in sorted(seen_known):
        lines.append('KNOWN-FINDING: property={} {} -- {}'.format(
            prop, key, known[key].get('what', '')))
    replay_dir = os.path.join(VERIF, 'replays')
    if os.environ.get('VERIF_EVIDENCE_DIR'):
        replay_dir = os.path.join(os.environ['VERIF_EVIDENCE_DIR'], 'replays')
    os.makedirs(replay_dir, exist_ok=True)
    seen_mech = {}
    for v in unlisted:
        seen_mech.setdefault(v['mech'], []).append(v)
    for mech, vs in seen_mech.items():
        v = vs[0]
        doc = {'property': prop, 'tier': tier, 'seed': seed, 'mech': mech,
               'what': v['what'], 'replay': v['replay'], 'count': len(vs)}
        path = os.path.join(replay_dir, '{}-{}.json'.format(
            prop, sig([mech, v['what']])))
        with open(path, 'w') as f:
            f.write(dumps(doc, indent=1))
        lines.append('VIOLATION property={} replay={}'.format(prop, path))
        lines.append('  mechanism: {}  ({} case(s))  {}'.format(
            mech, len(vs), str(v['what'])[:600]))
        exit_code = 1

    n_distinct = len(merged['sigs']) + sum(
        r.get('enumerated', 0) for r in results)
    if exit_code == 0 and (merged['inconclusive'] or merged['evaluations'] == 0
                           or n_distinct < 2):
        exit_code = 3
        lines.append('INCONCLUSIVE property={} {}'.format(
            prop, '; '.join(str(x)[-300:] for x in merged['inconclusive'][:4])
            or 'deciding monitor observed nothing'))

    coverage = {
        'evaluations': merged['evaluations'],
        'distinct_nontrivial': n_distinct,
        'rule': mod.RULE,
        'samples': merged['samples'] or ['(none)'],
        'counters': dict(sorted(merged['counters'].items())),
        'shards': nshards,
        'inconclusive': merged['inconclusive'],
        'known_findings_reproduced': sorted(seen_known),
    }
    if getattr(mod, 'EXHAUSTIVE', {}).get(tier):
        coverage['exhaustive'] = True
    coverage.update(merged.get('coverage_extra', {}))
    evidence = {
        'property_id': prop, 'tier': tier, 'seed': seed, 'level': mod.LEVEL,
        'coverage': coverage,
        'assumptions': list(mod.ASSUMPTIONS),
        'wall_s': round(time.time() - t0, 2),
        'violations': len(unlisted),
        'verdict': {0: 'held on what was observed', 1: 'violated',
                    3: 'inconclusive'}[exit_code],
        'repo': os.environ.get('VERIF_REPO', '/repo'),
    }
    # (the mutant self-test redirects evidence and replays of its scratch runs)
    ev_dir = os.environ.get('VERIF_EVIDENCE_DIR') or os.path.join(VERIF, 'evidence')
    os.makedirs(ev_dir, exist_ok=True)
    with open(os.path.join(ev_dir, prop + '.json'), 'w') as f:
        f.write(dumps(evidence, indent=1))
    # clean the work directory
    for fn in os.listdir(tmpdir):
        os.unlink(os.path.join(tmpdir, fn))
    os.rmdir(tmpdir)
    for ln in lines:
        print(ln)
    print('{} {} seed={} evaluations={} distinct={} violations={} '
          'wall={:.1f}s verdict={}'.format(
              prop, tier, seed, merged['evaluations'], n_distinct,
              len(unlisted), time.time() - t0, evidence['verdict']))
    return exit_code


def main(argv):
    if len(argv) >= 3 and argv[1] == '--replay':
        mod = load_prop(argv[0])
        with open(argv[2]) as f:
            doc = json.load(f)
        return mod.replay(doc)
    prop, tier = argv[0], (argv[1] if len(argv) > 1 else 'quick')
    os.environ['VERIF_TIER'] = tier
    return run_check(prop, tier)
