"""Bootstrap: import path to the repository under test, generic sanitizer layer
(thread exception hook, logging capture incl. the VM's catch-all), recorders
for the clock and the output sink, and `configure()` which wires the
production controller stack onto the simulated LAN."""
import logging
import os
import sys
import threading
import warnings

warnings.simplefilter('ignore')
sys.dont_write_bytecode = True

VERIF = os.path.dirname(os.path.dirname(os.path.abspath(__file__)))
REPO = os.environ.get('VERIF_REPO', '/repo')
if not sys.path or sys.path[0] != REPO:
    sys.path.insert(0, REPO)
DEPS = os.path.join(VERIF, '.deps')
if DEPS not in sys.path:
    sys.path.append(DEPS)
os.environ.setdefault('AL_FONTES_JR_BARDOLPH_VERIF', '1')

from bvf import simnet  # noqa: E402

import lifxlan  # noqa: E402
from bardolph.controller import (i_controller, lifx_lan_api,  # noqa: E402
                                 light_set)
from bardolph.lib import i_lib, injection, settings  # noqa: E402
from bardolph.lib import clock as clock_mod  # noqa: E402
from bardolph.lib import std_out_output  # noqa: E402
from bardolph.runtime import i_runtime, runtime_module  # noqa: E402

assert os.path.realpath(lifx_lan_api.__file__).startswith(
    os.path.realpath(REPO)), 'repository under test not imported from ' + REPO

lifx_lan_api.lifxlan.LifxLAN = simnet.SimLan

# ---------------------------------------------------------------------------
# sanitizer layer

THREAD_EXCEPTIONS = []     # (thread name, exc type name, message, frames)
MACHINE_STOPS = []         # (message, exc type name, exc str, frames)


def _frames(tb):
    """list of (relative file, function, line) for repository frames"""
    out = []
    while tb is not None:
        fn = tb.tb_frame.f_code.co_filename
        if fn.startswith(REPO):
            out.append((os.path.relpath(fn, REPO), tb.tb_frame.f_code.co_name,
                        tb.tb_lineno))
        tb = tb.tb_next
    return out


def _thread_hook(args):
    if args.exc_type is SystemExit:
        return
    THREAD_EXCEPTIONS.append((
        getattr(args.thread, 'name', '?'), args.exc_type.__name__,
        str(args.exc_value), _frames(args.exc_traceback)))


threading.excepthook = _thread_hook


class LogCapture(logging.Handler):
    def emit(self, record):
        try:
            msg = record.getMessage()
        except Exception as ex:   # bad logging call in the code under test
            msg = 'LOGGING-ERROR {!r} {!r}: {}'.format(
                record.msg, record.args, ex)
        if msg.startswith('Machine stopped due to'):
            et, ev, tb = sys.exc_info()
            MACHINE_STOPS.append((
                msg, et.__name__ if et else None, str(ev), _frames(tb)))
        simnet.emit(('log', record.levelname, msg))


_capture = LogCapture(level=logging.WARNING)


def install_log_capture():
    root = logging.getLogger()
    for h in list(root.handlers):
        root.removeHandler(h)
    root.addHandler(_capture)
    root.setLevel(logging.WARNING)
    logging.raiseExceptions = False


def reset_monitors():
    simnet.reset_log()
    THREAD_EXCEPTIONS.clear()
    MACHINE_STOPS.clear()


# ---------------------------------------------------------------------------
# recorders (E2)

class RecClock(i_lib.Clock):
    def start(self):
        simnet.emit(('clock', 'start', ()))

    def stop(self):
        simnet.emit(('clock', 'stop', ()))

    def reset(self):
        simnet.emit(('clock', 'reset', ()))

    def pause_for(self, delay):
        simnet.emit(('clock', 'pause_for', (delay,)))

    def wait_until(self, pattern):
        # tabulated at the moment of the call (the object may be mutated later)
        try:
            table = frozenset(h * 60 + m for h in range(24) for m in range(60)
                              if pattern.match(h, m))
        except Exception as ex:
            table = 'match raised {!r}'.format(ex)
        simnet.emit(('clock', 'wait_until', (repr(pattern), table)))


class RecOutput(i_lib.Output):
    def out(self, value):
        simnet.emit(('out', 'out', value))

    def newline(self):
        simnet.emit(('out', 'newline', None))

    def flush(self):
        simnet.emit(('out', 'flush', None))


# ---------------------------------------------------------------------------
# runtime with a scripted decision stream (E3)

class Decisions:
    """The stream consumed by the extra built-in `choose`.

    Two forms: a list (values handed out in order of evaluation, then
    `default`), or a dict {'sites': {k: [v, ...]}, 'default': v} in which the
    n-th evaluation of the site `[choose k]` gets the n-th value of its list
    (the last one repeated; `default` for unlisted sites)."""
    def __init__(self):
        self.load([])

    def load(self, stream, default=0):
        self.sites = None
        self.default = default
        self.pos = 0
        self.count = {}
        if isinstance(stream, dict):
            self.sites = {int(k): list(v) for k, v in stream['sites'].items()}
            self.default = stream.get('default', 0)
            self.stream = []
        else:
            self.stream = list(stream or [])

    def next(self, k):
        self.pos += 1
        if self.sites is not None:
            n = self.count.get(k, 0)
            self.count[k] = n + 1
            if n >= 5:
                return 0           # every site eventually says no (termination)
            vals = self.sites.get(k)
            if not vals:
                return self.default
            return vals[n] if n < len(vals) else vals[-1]
        if self.pos <= len(self.stream):
            return self.stream[self.pos - 1]
        return self.default


DECISIONS = Decisions()


def _make_runtime():
    from bardolph.runtime.bardolph_fn import builtin

    @builtin
    def choose(k):
        return DECISIONS.next(k)

    class VerifRuntime(runtime_module.Runtime):
        def __init__(self):
            super().__init__()
            self._fns = dict(self._fns)
            self._fns['choose'] = choose
    return VerifRuntime()


# ---------------------------------------------------------------------------

BASE_SETTINGS = {
    'default_num_lights': None,
    'sleep_time': 0.01,
    'log_level': logging.WARNING,
    'log_to_console': True,
    'single_light_discover': True,
    'light_gc_time': 300,
    'script_path': 'scripts',
    'use_fakes': False,
}


def configure(devices, clock='rec', output='rec', overrides=None,
              runtime='verif'):
    """Wire the production stack to the simulated LAN.

    clock:  'rec' -> RecClock instance; 'real' -> production Clock class.
    output: 'rec' -> RecOutput instance; 'stdout' -> production binding.
    """
    simnet.SimLan.devices = list(devices)
    injection.configure()
    # the way the front ends build their settings: the repository's functional
    # defaults first (whatever keys they have at the time), then -- like the
    # project's own test configuration -- a key nothing reads
    # (`matrix_init_color`), then what this harness needs
    from bardolph.controller import config_values
    conf = dict(config_values.functional)
    conf['matrix_init_color'] = [4, 3, 2, 1]
    conf.update(BASE_SETTINGS)
    if overrides:
        conf.update(overrides)
    settings.using(conf).configure()
    install_log_capture()
    if clock == 'rec':
        injection.bind_instance(RecClock()).to(i_lib.Clock)
    else:
        clock_mod.configure()
    if output == 'rec':
        injection.bind_instance(RecOutput()).to(i_lib.Output)
    else:
        std_out_output.configure()
    lifx_lan_api.configure()
    light_set.configure()
    if runtime == 'verif':
        injection.bind_instance(_make_runtime()).to(i_runtime.Runtime)
    else:
        runtime_module.configure()
    reset_monitors()


def light_set_instance():
    return injection.provide(i_controller.LightSet)
