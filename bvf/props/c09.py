"""C09 -- a stop request ends a running script promptly in every state and is
never lost.

The production ScriptJob + Machine + Clock + JobControl (and WebApp's stop
methods) run under the controlled scheduler with virtual time.  A scripted
job (straight-line, infinite repeat, timed, time-of-day, finishing-soon) is
started; the driver lets a seeded number of scheduling steps pass -- so the
stop lands before the job thread's first line, inside reset/run before the
first instruction, between two instructions, inside a delay around the event
wait, inside a time-of-day wait, or as the script finishes -- and then issues
the stop (request_stop, stop_job by name, stop_current, or WebApp.stop_all).
With s = the logical time at which the stop call returned, refuted by:
  a  more than one further VM instruction starts in the stopped run;
  b  a device request is issued by an instruction that started after s;
  c  the job thread does not terminate within 5000 of its own scheduling
     steps (virtual time free to advance), or the scheduler reports deadlock;
  d  the next queued job does not start, or its event log is not its own;
  e  after stop-all anything still starts / the controller keeps jobs;
  f  a run started after the stop (the same script again, or another one)
     does not run to completion;
  g  the stop call itself raises;
  h  after s the script goes back to waiting for a clock tick more than once
     (the delay / time-of-day wait in progress was not abandoned);
  j  a job queued the moment the stop call has returned (the stopped job may
     still be winding down) never starts, does not run to completion, or -- when
     it is an endless script -- a stop aimed at it later is lost;
  i  after s the job thread stays blocked (unable to run, as opposed to merely
     not scheduled) for more than 5 virtual seconds + 2 ticks.
"""
import os
import shutil
import sys

from bvf import env, sched, simnet, vsys
from bvf.harness import sig
from bardolph.controller.script_job import ScriptJob
from bardolph.vm.vm_codes import OpCode

if env.REPO not in sys.path:
    sys.path.insert(0, env.REPO)
from web import web_app as web_app_mod  # noqa: E402

sched.instrument_module(web_app_mod)

ID = 'C09'
MANIFEST = {
    'category': 'exploration',
    'technique': 'trace rules over instruction starts, device requests and '
                 'thread termination stamped with the controlled scheduler\'s '
                 'logical clock; bounded progress instead of liveness',
    'text': 'Script shapes (straight line, infinite repeat, timed, '
            'time-of-day, finishing soon) x stop entry points (ScriptJob.'
            'request_stop, JobControl.stop_job / stop_current, WebApp.stop_all) '
            'x stop positions chosen uniformly among the yield points of the '
            'run (histogram in the evidence) under seeded random-walk and PCT '
            'schedules with virtual time; a queued successor and a re-run '
            'after the stop are checked against their own expected logs. '
            'Sampled schedules.'
            ' In a quarter of the scenarios the second stop is issued the'
            ' moment the controller names the job as current; job names c'
            'arry blanks at either end.',
    'note': 'Trusted: scheduler shims, virtual clock. Promptness is counted in '
            'the job thread\'s own scheduling steps (5000), never wall clock. '
            'The instruction in progress when the stop returns may finish and '
            'one further instruction may start (the run loop\'s test and the '
            'dispatch are separate statements).',
}
LEVEL = 'exploration'
SHARDS = {'quick': 16, 'thorough': 16}
N = {'quick': 3000, 'thorough': 200000}
TIMEOUT = {'quick': 1200, 'thorough': 14400}
RULE = ('one case = (script shape, stop entry point, stop position, schedule '
        'seed and policy); non-trivial = the stop was issued while the job '
        'thread was alive; distinct = distinct sequences of scheduling '
        'choices.')
ASSUMPTIONS = [
    'RLock.acquire(timeout=1.0) never times out while the owner can run',
    'promptness bound: 5000 scheduling steps of the job thread and 5 virtual '
    'seconds + 2 ticks of being blocked after the stop returned',
]
OWN_STEPS = 5000
PROMPT_SECONDS = 5.0
DEVICES = [dict(label='A', group='G', location='P'),
           dict(label='B', group='G', location='P'),
           dict(label='C', group='H', location='P')]
# a script queued the moment the stop call has returned (the stopped job may
# still be winding down)
EARLY = {'finite': 'on "C" off "C" print 5',
         'infinite': 'repeat begin on "C" off "C" end',
         'infinite-timed': 'time 0.2 repeat begin on "C" end'}
EARLY_LOG = [('C', 'set_power', True), ('C', 'set_power', False), ('out', 5)]
SHAPES = {
    'straight': ' '.join(['on "A" off "A"'] * 12) + ' print 1',
    'infinite': 'repeat begin on "A" off "A" end',
    'infinite-timed': 'time 0.35 repeat begin on "A" end',
    'timed': 'time 0.35 on "A" off "A" time 0.05 on "A" off "A" on "A" print 1',
    'long-delay': 'on "A" time 50 off "A" print 1',
    'time-of-day': 'on "A" time at 0:2* off "A" print 1',
    'time-of-day-loop': 'repeat begin time at *:*8 on "A" time at *:*9 '
                        'off "A" end',
    'soon': 'on "A" print 1',
    'empty-ish': 'print 1',
}
FINITE = {'straight', 'timed', 'long-delay', 'time-of-day', 'soon',
          'empty-ish'}
RERUN = {'straight', 'timed', 'soon', 'empty-ish'}    # (short in virtual time)
SUCCESSOR = 'on "B" off "B" print 7'
SUCCESSOR_LOG = [('B', 'set_power', True), ('B', 'set_power', False),
                 ('out', 7)]


SCRIPT_DIR = os.path.join(env.VERIF, '.work', 'c09-scripts-{}'.format(
    os.getpid()))


def script_files():
    """the shapes as files, for starts that go through the front end"""
    if not os.path.isdir(SCRIPT_DIR):
        os.makedirs(SCRIPT_DIR)
        for name, text in SHAPES.items():
            with open(os.path.join(SCRIPT_DIR, name + '.ls'), 'w') as f:
                f.write(text + '\n')
    return SCRIPT_DIR


def successor_events(log, marker, dev='B'):
    out = []
    for e in log:
        if e[0] == 'dev' and e[1] == dev and e[4] == 'ok':
            out.append((e[1], e[2], bool(e[3][0])))
        elif e[0] == 'out' and e[1] == 'out' and e[2] == marker:
            out.append(('out', marker))
    return out


def run_scenario(seed, shape, entry, delay_steps, tick, policy, depth,
                 with_successor, early=None, early_steps=0,
                 early_entry='stop_current', via_web=False, early_delay=0,
                 same_again=None, background=False):
    env.THREAD_EXCEPTIONS.clear()
    env.MACHINE_STOPS.clear()
    s = sched.begin(seed, policy=policy, depth=depth, max_steps=300000)
    res = {'deadlock': None, 'problems': [], 'stop_raised': None}
    inst = {'starts': [], 'cur': None}
    try:
        vsys.configure(DEVICES, tick,
                       overrides={'script_path': script_files()}
                       if via_web else None)
        simnet.STAMP = lambda: (s.steps, inst['cur'])
        simnet.STAMPS.clear()
        app = web_app_mod.WebApp()          # manifest_file_name is None
        jc = app._jobs
        clock_events = []
        res['clock_events'] = clock_events

        # the names the jobs go by: now and then with a blank at either end
        # (the controller files, reports and stops a job under the text given)
        NAME1 = 'job1 ' if (delay_steps + early_steps) % 5 == 2 else 'job1'
        NAME_E = ' early' if early_steps % 3 == 1 else 'early'

        def wrap(fn):
            def stepped():
                inst['cur'] = s.steps
                inst['starts'].append(s.steps)
                fn()
            return stepped

        def instrument(job):
            if getattr(job, '_bvf_instrumented', False):
                return
            job._bvf_instrumented = True
            table = job._machine._fn_table
            for op in list(table):
                if op is not OpCode.STOP:
                    table[op] = wrap(table[op])
            vsys.ClockProbe(job._machine._clock, clock_events)

        def start(name):
            """starts SHAPES[shape] under the given job name: directly, or
            the way the web front end does it (WebApp.queue_script compiles
            the listed file and hands the job to the controller)"""
            if not via_web:
                job = ScriptJob.from_string(SHAPES[shape])
                assert job.program is not None, job.compile_errors
                if name == NAME1:
                    instrument(job)
                if background and name == NAME1:
                    return job, jc.spawn_job(job, name)
                return job, jc.add_job(job, name)
            got = []
            orig_add = jc.add_job

            def add_job(job, job_name=None):
                if name == NAME1:
                    instrument(job)
                got.append(job)
                got.append(orig_add(job, job_name))
                return got[-1]
            jc.add_job = add_job
            try:
                app.queue_script(web_app_mod.ScriptControl(
                    shape + '.ls', False, shape, name))
            finally:
                del jc.add_job
            return got[0], got[1]
        job1, agent1 = start(NAME1)
        agent2 = None
        if with_successor:
            agent2 = jc.add_job(ScriptJob.from_string(SUCCESSOR), 'job2')
        for _ in range(delay_steps):
            if not agent1.is_running():
                break
            s.switch('driver')
        rec1 = agent1._thread._rec
        res['alive_at_stop'] = not rec1.done
        res['position'] = '{}|{}'.format(rec1.state, rec1.loc.split(':')[0]
                                         if rec1.loc else '?')
        res['vnow_at_stop'] = s.vnow
        try:
            if entry == 'request_stop':
                job1.request_stop()
            elif entry == 'stop_job':
                app.stop_script(NAME1)
            elif entry == 'stop_current':
                app.stop_current()
            else:
                app.stop_all()
        except sched.SchedAbort:
            raise
        except Exception as ex:
            res['stop_raised'] = repr(ex)
        res['s'] = s.steps
        # had the controller already handed the successor to a thread when the
        # stop call returned?  (then it was the current job for stop-all to
        # stop, not something started afterwards)
        res['successor_thread_at_return'] = (
            agent2 is not None and agent2._thread is not None)
        res['position_at_return'] = '{}|{}'.format(
            rec1.state, rec1.loc.split(':')[0] if rec1.loc else '?')
        res['own_steps_at_stop'] = rec1.steps
        blocked_at_stop = rec1.blocked_time
        agent_e = None
        if background:
            # the same name started again as a background job while the
            # stopped one may still be winding down: its own complete run
            for _ in range(max(early_delay, 0) % 40):
                s.switch('driver')
            agent_b = jc.spawn_job(ScriptJob.from_string(EARLY['finite']),
                                   NAME1)
            res['restart_handle_is_new'] = agent_b is not agent1
        if early:
            # ... or a little later, while the stopped job winds down and the
            # controller moves on to the next one
            if early_delay < 0:
                # aimed at the completion: wait until the stopped job's thread
                # is inside the controller's completion callback, then a few
                # more of its steps
                s.block_until(lambda: rec1.done or (rec1.loc or '').startswith(
                    ('_on_execution_done', '_run_next_job', '_release_lock',
                     'lock.')), 'completion callback')
                for _ in range(-early_delay - 1):
                    s.switch('driver')
            for _ in range(max(early_delay, 0)):
                s.switch('driver')
            agent_e = jc.add_job(ScriptJob.from_string(EARLY[early]), NAME_E)
        s.block_until(lambda: rec1.done or
                      rec1.steps - res['own_steps_at_stop'] > OWN_STEPS,
                      'stopped job')
        res['job1_done'] = rec1.done
        res['job1_end_step'] = s.steps
        res['blocked_after_stop'] = rec1.blocked_time - blocked_at_stop
        res['tick'] = tick
        res['own_steps_used'] = rec1.steps - res['own_steps_at_stop']
        res['log_at_job1_end'] = len(simnet.LOG)
        if rec1.done and early and early != 'finite':
            # the job queued right after the stop starts (behind the
            # successor, if any), and a stop aimed at it later is not lost
            s0 = s.steps
            at_handover = early_steps % 4 == 0
            if at_handover:
                # aimed at the hand-over: the request is made the moment the
                # controller names the job as the current one, whether or not
                # its thread is running yet (the controller decides under its
                # lock, so the request waits for the hand-over to finish)
                res['stop_at_handover'] = True
                s.block_until(lambda: jc.get_current() is agent_e
                              or agent_e._thread is not None
                              or s.steps - s0 > 30000, 'early job current')
            else:
                s.block_until(lambda: (agent_e._thread is not None
                                       and agent_e.is_running())
                              or s.steps - s0 > 30000, 'early job to start')
            res['early_started'] = agent_e._thread is not None or (
                at_handover and jc.get_current() is agent_e)
            if res['early_started']:
                for _ in range(0 if at_handover else early_steps):
                    s.switch('driver')
                try:
                    if early_entry == 'stop_current':
                        res['early_stop_result'] = app.stop_current()
                    elif early_entry == 'stop_job':
                        res['early_stop_result'] = app.stop_script(NAME_E)
                    else:
                        res['early_stop_result'] = app.stop_all()
                except sched.SchedAbort:
                    raise
                except Exception as ex:
                    res['stop_raised'] = 'second stop: ' + repr(ex)
                s1 = s.steps
                s.block_until(lambda: agent_e._thread is not None
                              or s.steps - s1 > 30000, 'early job thread')
                if agent_e._thread is None:
                    res['early_started'] = False
                    rec_e = None
                else:
                    rec_e = agent_e._thread._rec
            if res['early_started'] and rec_e is not None:
                own = rec_e.steps
                s.block_until(lambda: rec_e.done or rec_e.steps - own > OWN_STEPS,
                              'early job to stop')
                res['early_done'] = rec_e.done
        if rec1.done:
            # successor / quiescence
            # (bounded in scheduling steps: virtual time may jump)
            s0 = s.steps
            s.block_until(lambda: (all(t.done for t in s.order
                                       if t is not s.main
                                       and t.name != vsys.CLOCK_THREAD)
                                   and not jc.has_jobs())
                          or s.steps - s0 > 30000, 'quiescence')
            res['has_jobs'] = jc.has_jobs()
            res['successor'] = successor_events(simnet.LOG, 7)
            res['early_log'] = successor_events(simnet.LOG, 5, 'C')
            res['successor_after_stop'] = successor_events(
                [e for e, st in zip(simnet.LOG, simnet.STAMPS)
                 if st[0] > res['s']], 7)
            # (f) runs started after the stop
            mark = len(simnet.LOG)
            job3 = ScriptJob.from_string(SUCCESSOR.replace('7', '8'))
            agent3 = jc.add_job(job3, 'job3')
            agent4 = None
            if shape in RERUN:
                # the same script, started again the way the front ends do it
                # (a fresh job object per start)
                agent4 = start('job1-again')[1]
            s0 = s.steps
            s.block_until(lambda: not jc.has_jobs()
                          or s.steps - s0 > 150000, 'reruns')
            res['rerun_has_jobs'] = jc.has_jobs()
            res['rerun_budget_exhausted'] = s.steps - s0 > 150000
            if background:
                res['restart_log'] = successor_events(simnet.LOG, 5, 'C')
            # (only when the stop was used up by the run it was aimed at: a
            # stop that reaches a job object after its run is over stays with
            # the object and may cut its next run short -- which run such a
            # request is "aimed at" the statement does not say)
            used_up = not any(
                e[0] == 'out' and e[1] == 'out' and e[2] == 1
                for e in simnet.LOG[:res['log_at_job1_end']])
            if same_again == -1 and shape in RERUN and used_up and \
                    res['alive_at_stop'] and \
                    not res['rerun_budget_exhausted']:
                # the very same job object once more, left alone this time:
                # it runs to its end
                mark2 = len(simnet.LOG)
                jc.add_job(job1, 'job1-same')
                s0 = s.steps
                s.block_until(lambda: not jc.has_jobs()
                              or s.steps - s0 > 150000, 'same job, complete')
                if s.steps - s0 <= 150000:
                    res['same_complete_marker'] = any(
                        e[0] == 'out' and e[1] == 'out' and e[2] == 1
                        for e in simnet.LOG[mark2:])
            elif same_again is not None and same_again >= 0 and \
                    not res['rerun_budget_exhausted']:
                # the very same job object once more, stopped early this time
                # (its previous run ended by a stop, or by itself)
                agent5 = jc.add_job(job1, 'job1-same')
                for _ in range(same_again):
                    if not agent5.is_running():
                        break
                    s.switch('driver')
                try:
                    app.stop_current()
                except sched.SchedAbort:
                    raise
                except Exception as ex:
                    res['stop_raised'] = 'third stop: ' + repr(ex)
                res['s2'] = s.steps
                rec5 = agent5._thread._rec if agent5._thread else None
                if rec5 is not None:
                    res['same_alive_at_stop'] = not rec5.done
                    own = rec5.steps
                    s.block_until(lambda: rec5.done or
                                  rec5.steps - own > OWN_STEPS, 'same job again')
                    res['same_done'] = rec5.done
                res['same_end_step'] = s.steps
            res['job3'] = successor_events(simnet.LOG[mark:], 8)
            if agent4 is not None:
                res['job1_again_marker'] = any(
                    e[0] == 'out' and e[1] == 'out' and e[2] == 1
                    for e in simnet.LOG[mark:])
    except (sched.Deadlock, sched.Livelock) as ex:
        res['deadlock'] = str(ex)
    finally:
        log = list(simnet.LOG)
        stamps = list(simnet.STAMPS)
        simnet.STAMP = None
        sched.end()
    res.update(log=log, stamps=stamps, starts=inst['starts'],
               schedule=list(s.choices), steps=s.steps,
               stops=list(env.MACHINE_STOPS),
               thread_exc=list(env.THREAD_EXCEPTIONS))
    return res


def check(ctx, res, shape, entry, with_successor, replay):
    desc = '{} / {} at {}'.format(shape, entry, res.get('position'))
    if res['stop_raised']:
        ctx.violation('g:stop-call-raised', '{}: {}'.format(
            desc, res['stop_raised']), replay)
        return False
    if res['deadlock'] and 's' not in res:
        ctx.count('scenarios_without_verdict')
        return None
    s_time = res['s']
    if res['deadlock']:
        kind = 'deadlock' if res['deadlock'].startswith('DEAD') else 'livelock'
        ctx.violation('c:{}:{}'.format(kind, shape if 'time-of-day' in shape
                                       else 'delay-or-run'),
                      '{}: {}'.format(desc, res['deadlock'][:200]), replay)
        return False
    if not res.get('job1_done'):
        ctx.violation('c:not-terminated:' + ('time-of-day' if 'time-of-day'
                                             in shape else 'run'),
                      '{}: the job thread is still alive after {} of its own '
                      'scheduling steps'.format(desc, res['own_steps_used']),
                      replay)
        return False
    if res['thread_exc'] or res['stops']:
        ctx.violation('abort', '{}: {} {}'.format(
            desc, res['thread_exc'][:1], res['stops'][:1]), replay)
        return False
    if res['alive_at_stop']:
        end = res['log_at_job1_end']
        # instruction starts of the stopped run after the stop returned
        n_after = len([x for x in res['starts']
                       if s_time < x <= res['job1_end_step']])
        ctx.count('instructions_started_after_stop', n_after)
        if n_after > 1:
            ctx.violation('a:instructions-after-stop',
                          '{}: {} instructions started after the stop returned'
                          .format(desc, n_after), replay)
            return False
        # h: the delay or time-of-day wait in progress is abandoned: after the
        # stop returned the script may be caught entering the tick wait once
        # (it had tested the flag just before), never twice
        waits = [e for e in res.get('clock_events', [])
                 if e[0] == 'wait' and e[2] == vsys.SCRIPT_THREAD
                 and e[3] > s_time and e[3] <= res['job1_end_step']]
        if len(waits) > 1:
            ctx.violation('h:wait-not-abandoned',
                          '{}: the script went back to waiting for a tick {} '
                          'times after the stop had returned'.format(
                              desc, len(waits)), replay)
            return False
        # i: promptness in virtual time, counted only while the job thread was
        # unable to run (a thread merely passed over by the scheduler does not
        # count): a stopped script must be woken within seconds, not left to
        # sit out its delay
        if res.get('blocked_after_stop', 0) > PROMPT_SECONDS + 2 * res['tick']:
            ctx.violation('i:blocked-long-after-stop',
                          '{}: after the stop returned the job thread stayed '
                          'blocked for {:.1f} virtual seconds'.format(
                              desc, res['blocked_after_stop']), replay)
            return False
        # the instruction in progress: the one started before the stop, or --
        # when the stop found the job thread inside the run loop, between its
        # test and the dispatch -- the first one started after it
        later = sorted(x for x in res['starts'] if x > s_time)
        in_loop = res.get('position_at_return', '').endswith('|run')
        first_allowed = later[0] if (later and in_loop) else None
        for e, st in zip(res['log'][:end], res['stamps'][:end]):
            if e[0] == 'dev' and e[1] == 'A' and st[0] > s_time \
                    and st[1] is not None and st[1] > s_time \
                    and st[1] != first_allowed:
                ctx.violation('b:device-request-after-stop',
                              '{}: {} issued by an instruction that started '
                              'after the stop'.format(desc, e[:3]), replay)
                return False
    if res.get('same_complete_marker') is False:
        ctx.violation('f:same-job-object-again-incomplete',
                      '{}: the same job object, started again after the stop '
                      'and left alone, did not reach its end'.format(desc),
                      replay)
        return False
    if res.get('same_complete_marker'):
        ctx.count('same_job_reruns_completed')
    if res.get('same_done') is False:
        ctx.violation('c:not-terminated:rerun-of-the-same-job',
                      '{}: the same job object, started again and asked to stop '
                      'early, is still alive after {} of its own scheduling '
                      'steps'.format(desc, OWN_STEPS), replay)
        return False
    if res.get('same_done') and res.get('same_alive_at_stop'):
        n2 = len([x for x in res['starts']
                  if res['s2'] < x <= res['same_end_step']])
        if n2 > 1:
            ctx.violation('a:instructions-after-stop:rerun-of-the-same-job',
                          '{}: in a further run of the same job object {} '
                          'instructions started after the stop returned'
                          .format(desc, n2), replay)
            return False
        ctx.count('same_job_reruns_stopped')
    if replay.get('background'):
        if res.get('restart_log') is not None and \
                res.get('restart_log') != EARLY_LOG:
            ctx.violation('f:background-restart-incomplete',
                          '{}: a background job started again under the same '
                          'name right after the stop produced {}'.format(
                              desc, res.get('restart_log')), replay)
            return False
        if res.get('restart_log') is not None:
            ctx.count('background_restarts_completed')
    if res.get('early_started') is False:
        ctx.violation('f:job-queued-after-stop-never-starts',
                      '{}: a job queued right after the stop returned had not '
                      'started 30000 scheduling steps after the stopped job '
                      'ended'.format(desc), replay)
        return False
    if res.get('early_done') is False:
        ctx.violation('c:later-stop-lost',
                      '{}: the job queued right after the stop returned was '
                      'itself asked to stop later ({} returned {}) and is '
                      'still running after {} of its own scheduling steps'
                      .format(desc, replay.get('early_entry'),
                              res.get('early_stop_result'), OWN_STEPS), replay)
        return False
    if res.get('early_done'):
        ctx.count('early_jobs_stopped_later')
    if replay.get('early') == 'finite':
        if res.get('early_log') != EARLY_LOG:
            ctx.violation('f:job-queued-after-stop-incomplete',
                          '{}: a job queued right after the stop returned '
                          'produced {}'.format(desc, res.get('early_log')),
                          replay)
            return False
        ctx.count('early_jobs_completed')
    if entry == 'stop_all':
        # anything *started* after stop-all (a successor that was already
        # running when stop-all arrived is the current job and is stopped; it
        # may still finish the instruction in progress)
        # -- "started" is the moment the controller gives the job a thread,
        # not the moment of its first command: a successor whose thread
        # existed when stop-all returned had been taken out of the queue
        # before the queue was cleared, was the current job when stop-all
        # looked, and may deliver the one command it was in the middle of
        # (the stricter reading, first command after the return, was a false
        # alarm: once in 200 000 schedules of the thorough tier, seed 1)
        first_after = SUCCESSOR_LOG[0] in (res.get('successor_after_stop')
                                           or [])
        started_after = first_after and not res.get(
            'successor_thread_at_return')
        # ... one command, that is: a successor that goes on after it was not
        # stopped (it was started behind stop-all's back, between the stop of
        # the current job and the clearing of the queue)
        if len(res.get('successor_after_stop') or []) > 1:
            started_after = True
        if first_after and not started_after:
            ctx.count('successors_caught_in_their_first_command')
        if started_after or res.get('has_jobs'):
            ctx.violation('e:stop-all-leaves-work',
                          '{}: after stop-all successor events {} has_jobs={}'
                          .format(desc, res.get('successor_after_stop'),
                                  res.get('has_jobs')), replay)
            return False
    elif with_successor:
        if res.get('successor') != SUCCESSOR_LOG:
            ctx.violation('d:successor', '{}: the next queued job produced {}'
                          .format(desc, res.get('successor')), replay)
            return False
        ctx.count('successors_ok')
    if res.get('rerun_budget_exhausted'):
        ctx.count('scenarios_without_verdict')     # the watchdog, not a verdict
        return None
    want3 = [x if x[0] != 'out' else ('out', 8) for x in SUCCESSOR_LOG]
    if res.get('job3') != want3:
        ctx.violation('f:later-run-incomplete',
                      '{}: a script started after the stop produced {}'
                      .format(desc, res.get('job3')), replay)
        return False
    if shape in RERUN and res.get('job1_again_marker') is False:
        ctx.violation('f:same-script-again-incomplete',
                      '{}: the stopped script, started again, did not reach '
                      'its end'.format(desc), replay)
        return False
    if res.get('rerun_has_jobs'):
        ctx.violation('f:controller-not-drained', desc, replay)
        return False
    return True


def run_shard(ctx):
    n = N[ctx.tier]
    hist = {}
    for i in range(ctx.shard, n, ctx.nshards):
        rng = ctx.rng('c09', i)
        shape = rng.choice(sorted(SHAPES))
        entry = rng.choice(['request_stop', 'stop_job', 'stop_job',
                            'stop_current', 'stop_all'])
        with_successor = entry != 'stop_current' and rng.random() < 0.6
        tick = rng.choice([0.1, 0.1, 1]) if 'time-of-day' not in shape else 1
        if shape == 'long-delay':
            tick = 1
        r = rng.random()
        delay = (0 if r < 0.1 else rng.randint(1, 12) if r < 0.35
                 else rng.randint(1, 60) if r < 0.7 else rng.randint(1, 400))
        policy = rng.choice(['random', 'random', 'pct'])
        depth = rng.choice([1, 2, 3])
        seed = ctx.seed * 1000003 + i
        early = rng.choice([None, None, 'finite', 'infinite',
                            'infinite-timed'])
        early_steps = rng.randint(0, 80)
        early_entry = rng.choice(['stop_current', 'stop_current', 'stop_job',
                                  'stop_all'])
        early_delay = rng.choice([0, 0, rng.randint(1, 40),
                                  rng.randint(1, 150), -rng.randint(1, 12),
                                  -rng.randint(1, 12)])
        same_again = rng.choice([None, None, 0, rng.randint(0, 30),
                                 rng.randint(0, 200), -1, -1])
        background = (entry in ('stop_job', 'stop_all') and not with_successor
                      and rng.random() < 0.35)
        if background:
            early = None
        via_web = rng.random() < 0.4 and not background
        if via_web:
            ctx.count('started_through_front_end')
        res = run_scenario(seed, shape, entry, delay, tick, policy, depth,
                           with_successor, early, early_steps, early_entry,
                           via_web, early_delay, same_again, background)
        replay = {'shape': shape, 'entry': entry, 'delay_steps': delay,
                  'tick': tick, 'policy': policy, 'depth': depth, 'seed': seed,
                  'successor': with_successor, 'script': SHAPES[shape],
                  'early': early, 'early_steps': early_steps,
                  'early_entry': early_entry, 'via_web': via_web,
                  'early_delay': early_delay, 'same_again': same_again,
                  'background': background}
        if early:
            ctx.count('early:' + early)
        ok = check(ctx, res, shape, entry, with_successor, replay)
        ctx.case(sig(res['schedule']), nontrivial=bool(res.get('alive_at_stop')))
        ctx.count('scheduler_steps', res['steps'])
        ctx.count('shape:' + shape)
        ctx.count('entry:' + entry)
        if res.get('alive_at_stop'):
            key = '{}@{}'.format(shape, res.get('position'))
            hist[key] = hist.get(key, 0) + 1
            ctx.count('stops_while_alive')
        if ok:
            ctx.count('scenarios_ok')
        if i % 600 < ctx.nshards:
            ctx.sample({'shape': shape, 'entry': entry, 'stop_position':
                        res.get('position'), 'own_steps_to_terminate':
                        res.get('own_steps_used')})
    ctx.extra['positions'] = hist
    shutil.rmtree(SCRIPT_DIR, ignore_errors=True)


def finalize(merged):
    c = merged['counters']
    pos = {}
    for d in merged['extra'].get('positions', []):
        for k, v in d.items():
            pos[k] = pos.get(k, 0) + v
    merged['coverage_extra'] = {
        'stop_positions_histogram': dict(sorted(pos.items(),
                                                key=lambda kv: -kv[1])[:60]),
        'distinct_stop_positions': len(pos)}
    for need in ('stops_while_alive', 'successors_ok', 'entry:stop_all',
                 'early_jobs_stopped_later', 'early_jobs_completed',
                 'shape:time-of-day', 'scenarios_ok'):
        if not c.get(need) and not merged['violations']:
            merged['inconclusive'].append('monitor observed nothing: ' + need)
    if len(pos) < 8 and not merged['violations']:
        merged['inconclusive'].append('only {} distinct stop positions'.format(
            len(pos)))


def replay(doc):
    from bvf.harness import Ctx
    r = doc['replay']
    ctx = Ctx('C09', 'quick', 0, 0, 1)
    res = run_scenario(r['seed'], r['shape'], r['entry'], r['delay_steps'],
                       r['tick'], r['policy'], r['depth'], r['successor'],
                       r.get('early'), r.get('early_steps', 0),
                       r.get('early_entry', 'stop_current'),
                       r.get('via_web', False), r.get('early_delay', 0),
                       r.get('same_again'), r.get('background', False))
    print({k: v for k, v in res.items() if k not in ('log', 'stamps', 'starts',
                                                     'schedule')})
    check(ctx, res, r['shape'], r['entry'], r['successor'], r)
    for v in ctx.violations:
        print('VIOLATION property=C09', v['mech'], v['what'])
    return 1 if ctx.violations else 0
