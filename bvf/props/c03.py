"""C03 -- parameters are by-value locals hiding globals; return works from any
depth.  Routine-heavy generated programs print the values of variables and
parameters before, inside and after calls; the reference interpreter applies
the scope rules of the statement (parameter private and hiding for the whole
body, assignment to a current global updates it, anything else is local to
the call, arguments evaluated in the caller's scope, `return v` unwinds only
this call's loops)."""
from bvf import gen, progcheck

ID = 'C03'
MANIFEST = {
    'category': 'exploration',
    'technique': 'differential trace checking of printed variable values '
                 'against reference scope rules',
    'text': 'Random routine-heavy programs: 1-6 routines with 0-4 parameters '
            'whose names deliberately collide with globals and with other '
            "routines' parameters, assignments to parameters inside "
            'repeat/if, recursion, calls as arguments and as expression '
            'operands, return at nesting depth 0-4 (inside counted, while and '
            'light loops); every call site form. The values of visible '
            'variables are printed around calls and at routine entry and '
            'compared with an independent interpreter. Sampled, not enumerated.',
    'note': 'Trusted: reference interpreter. Collisions between a parameter '
            'and a macro are not generated (the manual only speaks of '
            'variables).',
}
LEVEL = 'exploration'
SHARDS = {'quick': 16, 'thorough': 16}
N = {'quick': 4000, 'thorough': 150000}
TIMEOUT = {'quick': 900, 'thorough': 10800}
RULE = ('one case = one generated program (profile "routines") + population '
        '+ decision stream; non-trivial: at least one user routine was called '
        'and at least 3 values were printed; distinct = distinct (AST shape, '
        'feature-tag set).')
ASSUMPTIONS = [
    'a routine used for its value returns one on every path (the value of a '
    'routine that returns nothing is unspecified and never used)',
    'loop variables are not read after their loop nor assigned in the body',
]
PROFILE = gen.profile(
    len=(8, 40),
    w={'routine': 9, 'call': 16, 'return': 6, 'assign': 14, 'print': 10,
       'action': 3, 'setreg': 3, 'get': 0.5, 'repeat': 7, 'if': 7, 'break': 2,
       'units': 0.2, 'time': 0.3, 'time_at': 0, 'wait': 0.3, 'printf': 2,
       'define': 1, 'default': 0.2},
    trace_vars=0.6, trace_loops=0.4, matrix=False)
REQUIRED = ['tag:param-hides-global', 'tag:recursion', 'tag:return-in-loop',
            'tag:return', 'tag:call-as-operand', 'tag:call-as-argument-of-call',
            'tag:call-stmt', 'tag:assign-global-in-routine',
            'tag:params-printed', 'tag:vars-printed', 'tag:routine-0params',
            'tag:routine-3params', 'st:return', 'st:call']


# arguments that carry no value (a call of a routine that returns nothing): the
# parameter is still a private copy that hides the global of its name
NOTHING = ('define nothing begin return end '
           'define nothing2 with q begin if { q > 100 } return 1 end ')
PROBES = [
    (NOTHING + 'assign x 9 define fill with x begin assign x 5 return x end '
     'print [ fill [ nothing ] ] print x', [5, 9]),
    (NOTHING + 'assign x 9 define fill with x begin repeat 2 begin if { 1 } '
     'begin assign x { 3 + 4 } end end return x end '
     'print [ fill [ nothing ] ] print x', [7, 9]),
    (NOTHING + 'assign x 9 assign y 1 define two with y x begin assign x y '
     'assign y 4 return { x + y } end print [ two 2 [ nothing2 5 ] ] print x '
     'print y', [6, 9, 1]),
    (NOTHING + 'assign x 9 define outer with x begin define_inner end',
     None),
    (NOTHING + 'assign x 9 assign r [ nothing ] define fill with x begin '
     'assign x 5 return x end print [ fill r ] print x', [5, 9]),
    # every call has its own parameters, however deep the calls go
    ('define total with n begin if { n <= 0 } return 0 '
     'return { n + [ total { n - 1 } ] } end assign n 5 '
     'print [ total 300 ] print [ total 600 ] print n', [45150, 180300, 5]),
    ('define count with n acc begin if { n <= 0 } return acc '
     'return [ count { n - 1 } { acc + n } ] end assign acc 1 '
     'print [ count 900 0 ] print acc', [405450, 1]),
    (NOTHING + 'assign x 9 define deep with x n begin if { n > 0 } begin '
     'return [ deep [ nothing ] { n - 1 } ] end assign x 2 return x end '
     'print [ deep 1 2 ] print x', [2, 9]),
]


# a built-in that fails inside a routine (what happens to the script then is
# not specified -- it may stop there): whatever is printed afterwards still
# obeys the scoping rules, so the output is a prefix of the list given
PREFIX_PROBES = [
    ('assign v 100 assign t 1 define f with v begin print v '
     'assign t [ acos 3 ] print v assign v 7 print v end f 3 print v print t',
     [3, 3, 7, 100]),
    ('assign n 50 define g with n begin print n assign q [ sqrt { 0 - 4 } ] '
     'assign n { n + 1 } print n return n end print [ g 1 ] print n',
     [1, 2, 2, 50]),
    ('assign v 9 define h with v begin repeat 2 begin assign z [ asin 5 ] '
     'print v end end h 4 print v', [4, 4, 9]),
]
# a macro defined after a routine whose parameter or local has the same name
LATE_MACROS = [
    ('define show with m begin print m assign m { m + 1 } print m end '
     'define m 40 show 75 print m', [75, 76, 40]),
    ('define f with v begin print v end define v 5 f 9 print v', [9, 5]),
    ('define g begin assign t 3 print t end define t 8 g print t', [3, 8]),
    ('define h with q begin repeat 2 begin assign q { q + 1 } end return q end '
     'define q 50 print [ h 2 ] print [ h q ] print q', [4, 52, 50]),
]


def part_probes(ctx):
    from bvf import diffrun
    from bvf.runner import run_script
    for text, want in PREFIX_PROBES:
        diffrun.setup([])
        r = run_script(text)
        ctx.case('probe:' + text)
        got = [e[2] for e in r.log if e[0] == 'out' and e[1] == 'out']
        if not r.accepted or got != want[:len(got)]:
            ctx.violation('probe:after-failed-built-in',
                          'printed {} which is not a prefix of {} {} | {}'
                          .format(got, want, r.errors, text),
                          {'kind': 'probe', 'script': text})
        else:
            ctx.count('probes_ok')
    for text, want in PROBES + LATE_MACROS:
        if want is None:
            continue
        diffrun.setup([])
        r = run_script(text)
        ctx.case('probe:' + text)
        got = [e[2] for e in r.log if e[0] == 'out' and e[1] == 'out']
        replay = {'kind': 'probe', 'script': text}
        if not r.accepted or r.stops or got != want:
            ctx.violation('probe:call-semantics',
                          'printed {} expected {} {} {} | {}'.format(
                              got, want, r.errors, r.stops[:1], text), replay)
        else:
            ctx.count('probes_ok')


def run_shard(ctx):
    n = N[ctx.tier]
    if ctx.shard == 0:
        part_probes(ctx)
    for i in range(ctx.shard, n, ctx.nshards):
        out = progcheck.one_case(ctx, i, PROFILE, 'c03')
        if out is None:
            continue
        called = out.stats.get('st:call', 0) > 0 or any(
            k.startswith('tag:call-as') for k in ('tag:' + t for t in out.tags))
        ok = progcheck.account(ctx, out, 'c03',
                               min_events=3 if called else 10 ** 9)
        if ok and i % 1000 < ctx.nshards:
            ctx.sample({'script': out.text[:500], 'events_checked': out.events})


def finalize(merged):
    c = merged['counters']
    low = [k for k in REQUIRED if c.get(k, 0) < 20]
    if low and not merged['violations']:
        merged['inconclusive'].append(
            'shapes generated fewer than 20 times: {}'.format(low))


def replay(doc):
    if doc['replay'].get('kind') == 'probe':
        from bvf import diffrun
        from bvf.runner import run_script
        diffrun.setup([])
        r = run_script(doc['replay']['script'])
        print([e for e in r.log if e[0] == 'out'], r.errors, r.stops)
        return 0
    return progcheck.replay_doc(doc)
