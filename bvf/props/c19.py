"""C19 -- print, println and printf write exactly the documented text to
standard output.

The production output binding (std_out_output.configure(), as light_module
does) stays in place; sys.stdout is replaced by a tee that stamps every write
into the global event log, so the text *and* its order relative to device
commands are observed at the process boundary.  Oracle: a 15-line reference
formatter (separator-if-pending + str(v); println ends the line; printf =
fmt.replace('\\n', newline).format(*positional, **named)).
Tolerances (the statement is silent): a final line end at the end of the
script, and one blank directly after a printf text that ends in a line break.
"""
import logging
import re
import sys

from bvf import env, simnet
from bvf.oracle import lit
from bvf.runner import run_script

ID = 'C19'
MANIFEST = {
    'category': 'exploration',
    'technique': 'reference formatter as oracle over the bytes written to '
                 'sys.stdout (tee stamped into the device event log)',
    'text': 'Random sequences of 1-12 print/println/printf statements with '
            'values of every kind (int, float, string, truth value, register, '
            'variable, macro, expression, user and built-in call) and format '
            'strings mixing anonymous+named or numbered+named fields, format '
            'specs and conversions, interleaved with device commands, run with '
            'the production StdOutOutput binding; captured stdout is compared '
            'byte for byte (modulo the two stated tolerances) and segment by '
            'segment between device requests. Sampled.'
            ' One format string is executed twice around the appearance o'
            'r disappearance of a variable named like its field; formats '
            'consisting of doubled braces only are included.'
            ' Numbered formats run to 21 fields; every seventh script run'
            's with the root logger at DEBUG.',
    'note': 'Trusted: reference formatter; Python str()/format() as the '
            'meaning of "the text of its value". Values are chosen so that the '
            'format spec fits the value type (a ValueError from str.format is '
            "the script's own error).",
}
LEVEL = 'exploration'
SHARDS = {'quick': 16, 'thorough': 16}
N = {'quick': 4000, 'thorough': 150000}
RULE = ('one case = one script of 1-12 output statements (+ device commands); '
        'non-trivial = at least two output statements; distinct = distinct '
        'scripts.')
ASSUMPTIONS = [
    'a final line end at the end of the script is optional',
    'one blank directly after a printf text ending in a line break is optional',
    'named fields: the documented registers, else the variable or macro of '
    'that name',
]

VARS = {'a': 3, 'b': 2.5, 'cnt': 12, 'who': 'Top', 'txt': 'a b', 'neg': -7,
        'result': 41, 'power': 9, 'pc': 77, 'operand': 6}
MACROS = {'TEN': 10, 'lbl': 'x#y'}
REGS = {'hue': 40, 'saturation': 7.25, 'brightness': 100, 'kelvin': 2700,
        'duration': 1.5, 'red': 0.0}
PRELUDE = (' '.join('assign {} {}'.format(k, lit(v) if not isinstance(v, str)
                                          else '"{}"'.format(v))
                    for k, v in VARS.items())
           + ' ' + ' '.join('define {} {}'.format(
               k, lit(v) if not isinstance(v, str) else '"{}"'.format(v))
               for k, v in MACROS.items())
           + ' ' + ' '.join('{} {}'.format(k, lit(v)) for k, v in REGS.items())
           + ' define twice with x begin return { x * 2 } end'
           + ' define label with x begin return who end'
           # routines that write output themselves (used as arguments)
           + ' define shout with x begin printf "<{x}>" return { x * 2 } end'
           + ' define note with x begin printf "note" return x end'
           + ' define say with x begin print "say" print x return { x + 1 } end'
           + ' define brk with x begin println return x end'
           + ' define ln with x begin println x return { x + 2 } end'
           + ' assign yes { 1 < 2 } assign no { 2 < 1 } ')
VARS_ALL = dict(VARS, yes=True, no=False)
DEVICES = [dict(label='Top', group='G', location='P'),
           dict(label='B', group='G', location='P')]


class Tee:
    def write(self, s):
        if s:
            simnet.emit(('stdout', s))
        return len(s)

    def flush(self):
        pass


SIDE = []      # texts written by calls while the current value was evaluated


def value(rng):
    """returns (script text of an rvalue, python value); output written by
    routines called on the way is appended to SIDE"""
    k = rng.randrange(18)
    if k == 16:
        x = rng.choice([8, 11])
        SIDE.append(('newline', ''))
        return '[ brk {} ]'.format(x), x
    if k == 17:
        x = rng.choice([20, 30])
        SIDE.append(('println', str(x)))
        return '[ ln {} ]'.format(x), x + 2
    if k == 13:
        x = rng.choice([3, 4, 10])
        SIDE.append(('printf', '<{}>'.format(x)))
        return '[ shout {} ]'.format(x), x * 2
    if k == 14:
        x = rng.choice([1, 5])
        SIDE.append(('printf', 'note'))
        return '[ note {} ]'.format(x), x
    if k == 15:
        x = rng.choice([2, 6])
        SIDE.append(('print', 'say'))
        SIDE.append(('print', str(x)))
        return '{{ [ say {} ] * 1 }}'.format(x), x + 1
    if k == 0:
        v = rng.choice([0, 1, 7, 42, 65535, 100000])
        return lit(v), v
    if k == 1:
        v = rng.choice([0.5, 2.25, 3.0, 0.1, 120.75, 1e-05, 1234567.891])
        return lit(v), v
    if k == 2:
        s = rng.choice(['hello', 'a b', '', 'x{y}', '#not a comment', '100%',
                        'tab\there', "it's", '[b]', '{}', 'ünï',
                        # a backslash followed by n inside a *value* is just
                        # those two characters
                        'a\\nb', 'c:\\new', '\\n',
                        # quotes inside the text (written \" in the script),
                        # also as its last character; form feed and friends
                        'He said "hi"', 'a"b', '"', '"x', 'x"',
                        'page\x0cbreak', 'v\x0btab', 'fs\x1cgs\x1drs\x1e'])
        return '"{}"'.format(s.replace('"', '\\"')), s
    if k == 3:
        n = rng.choice(['yes', 'no'])
        return n, VARS_ALL[n]
    if k == 4:
        r = rng.choice(list(REGS))
        return r, REGS[r]
    if k == 5:
        n = rng.choice(list(VARS))
        return n, VARS[n]
    if k == 6:
        n = rng.choice(list(MACROS))
        return n, MACROS[n]
    if k == 7:
        x, y = rng.choice([1, 2, 5, 0.5]), rng.choice([3, 4, 1.5])
        op = rng.choice(['+', '-', '*', '/'])
        v = {'+': x + y, '-': x - y, '*': x * y, '/': x / y}[op]
        return '{{ {} {} {} }}'.format(lit(x), op, lit(y)), v
    if k == 8:
        x = rng.choice([2, 3.5, 10])
        return '[ twice {} ]'.format(lit(x)), x * 2
    if k == 9:
        x = rng.choice([2.5, 7.9, 3])
        import math
        return '[ floor {} ]'.format(lit(x)), math.floor(x)
    if k == 10:
        return '{ a > b }', True
    if k == 11:
        return '[ label 1 ]', 'Top'
    return '{ cnt - a * 2 }', 6


def spec_for(rng, v):
    if isinstance(v, bool):
        return rng.choice(['', '', '!s', '!r', ':>6', ':d'])
    if isinstance(v, int):
        return rng.choice(['', '', ':d', ':5d', ':<4', ':03d', ':x', ':.1f',
                           '!r', ':>9,', ':+d'])
    if isinstance(v, float):
        return rng.choice(['', '', ':.2f', ':8.3f', ':e', ':g', ':<10', '!r',
                           ':.0f', ':+.1f'])
    return rng.choice(['', '', ':>8', ':<6', '!r', ':^7', ':.2', '!s:>5'])


def named_pool():
    pool = dict(REGS)
    pool.update(VARS_ALL)      # (macros are not named by the statement)
    return pool


REPEATED = [False]


def printf_stmt(rng):
    """returns (script text, formatted text)"""
    style = rng.choice(['anon', 'anon', 'numbered', 'named-only'])
    nfields = rng.randint(0, 4)
    parts, args_txt, args_val, named = [], [], [], {}
    pool = named_pool()
    if nfields == 0 and style != 'numbered' and rng.random() < 0.6:
        # no field at all, only doubled braces: str.format halves them
        parts.append(rng.choice(['{{}}', 'a{{b', '}}{{', '{{x}}', '{{0}} {{',
                                 '{{', '}}', 'é{{}}\\n{{']))
    for i in range(nfields):
        parts.append(rng.choice(['', ' ', 'v=', ', ', ' - ', '%', '\\n', '# ',
                                 '{{', '}}', 'é']))
        use_named = style == 'named-only' or rng.random() < 0.35
        if use_named:
            n = rng.choice(list(pool))
            parts.append('{' + n + spec_for(rng, pool[n]) + '}')
            named[n] = pool[n]
        elif style == 'anon':
            t, v = value(rng)
            args_txt.append(t)
            args_val.append(v)
            parts.append('{' + spec_for(rng, v) + '}')
    if style == 'numbered':
        k = rng.randint(1, 3)
        if rng.random() < 0.12:
            k = rng.choice([10, 11, 12, 14, 21])     # {10}, {11}, ...
        for _ in range(k):
            t, v = value(rng)
            args_txt.append(t)
            args_val.append(v)
        # every positional value is referenced exactly once, in any order;
        # or (REPEATED) field numbers recur: the compiler takes one value per
        # positional field, str.format picks among them by number
        order = list(range(k))
        rng.shuffle(order)
        if rng.random() < 0.3:
            order = [rng.randrange(k) for _ in range(k)]
            if len(set(order)) < k:
                REPEATED[0] = True
        for idx in order:
            parts.append(rng.choice(['', ' ', '/']))
            parts.append('{' + str(idx) + spec_for(rng, args_val[idx]) + '}')
    parts.append(rng.choice(['', '', '.', '\\n', ' end']))
    fmt = ''.join(parts)
    if '"' in fmt or not fmt:
        fmt = fmt.replace('"', '') or 'x'
    try:
        text = fmt.replace('\\n', '\n').format(*args_val, **named)
    except (ValueError, IndexError, KeyError, TypeError):
        return None
    via_macro = rng.random() < 0.1
    src = 'printf "{}" {}'.format(fmt, ' '.join(args_txt))
    return src.strip(), text


def build(rng):
    """returns (script, expected segments)  segments: list of strings, a
    device request between consecutive segments; \\x00 = optional blank"""
    n = rng.randint(1, 12)
    stmts = []
    segs = ['']
    pending = False
    outputs = 0
    def emit(text, newline=False):
        nonlocal pending
        segs[-1] += (' ' if pending is True else
                     '\x00' if pending == 'opt' else '') + text
        pending = True
        if newline:
            segs[-1] += '\n'
            pending = False

    def side():
        nonlocal pending
        for kind, text in SIDE:
            if kind == 'newline':
                segs[-1] += '\n'
                pending = False
                continue
            emit(text, newline=kind == 'println')
            if kind == 'printf' and text.endswith('\n'):
                pending = 'opt'
        SIDE.clear()
    for _ in range(n):
        SIDE.clear()
        r = rng.random()
        if r < 0.15:
            stmts.append(rng.choice(['set "Top"', 'on "B"', 'off all',
                                     'set group "G"']))
            segs.extend([''] * (2 if stmts[-1].endswith('"G"') else 1))
            continue
        outputs += 1
        if r < 0.45:
            t, v = value(rng)
            stmts.append('print ' + t)
            side()
            emit(str(v))
        elif r < 0.65:
            if rng.random() < 0.2:
                stmts.append('println')
                segs[-1] += '\n'
            else:
                t, v = value(rng)
                stmts.append('println ' + t)
                side()
                emit(str(v), newline=True)
            pending = False
        else:
            pf = printf_stmt(rng)
            if pf is None:
                outputs -= 1
                continue
            src, text = pf
            stmts.append(src)
            side()
            emit(text)
            pending = 'opt' if text.endswith('\n') else True
    # a valueless println directly followed by something value-like would
    # swallow it: keep scripts unambiguous
    if rng.random() < 0.3:
        # a delay in force: every device command waits first, which has no
        # bearing on what is written and where the lines break
        spots = [k for k in range(len(stmts) + 1)
                 if k == 0 or stmts[k - 1] != 'println']
        stmts.insert(rng.choice(spots),
                     'time {}'.format(rng.choice([1, 0.5, 2])))
    for i in range(len(stmts) - 1):
        if stmts[i] == 'println' and stmts[i + 1].startswith(
                ('[', 'hue', 'saturation')):
            stmts[i] = 'println ""'
    final_optional_newline = pending is True or pending == 'opt'
    return ' '.join(stmts), segs, final_optional_newline, outputs


def pattern(expected, final_nl):
    out = []
    for ch in expected:
        out.append(' ?' if ch == '\x00' else re.escape(ch))
    return '^' + ''.join(out) + ('\n?' if final_nl else '') + '$'


def check_case(ctx, script, segs, final_nl, replay):
    saved = sys.stdout
    sys.stdout = Tee()
    try:
        r = run_script(PRELUDE + script)
    finally:
        sys.stdout = saved
    if not r.accepted:
        if replay.get('repeated_field_numbers'):
            # how many values such a format takes is the compiler's choice
            ctx.count('undecidable:repeated-field-numbers-rejected')
            return
        ctx.violation('rejected', '{} | {}'.format(r.errors.strip(), script),
                      replay)
        return
    if r.stops:
        ctx.violation('abort:' + str(r.stops[0][1]), '{} | {}'.format(
            r.stops[0][:3], script), replay)
        return
    got = ['']
    for e in r.log:
        if e[0] == 'stdout':
            got[-1] += e[1]
        elif e[0] in ('dev', 'lan') and e[-1] == 'ok':
            got.append('')
    whole_got = ''.join(got)
    whole_want = ''.join(segs)
    if not re.match(pattern(whole_want, final_nl), whole_got, re.S):
        # classify the difference for the mechanism key
        if whole_got.replace(' ', '') == whole_want.replace(' ', '') \
                .replace('\x00', ''):
            mech = 'text:separator'
        elif whole_got.replace('\n', '') == whole_want.replace('\n', '') \
                .replace('\x00', ''):
            mech = 'text:line-ends'
        else:
            mech = 'text:content'
        ctx.violation(mech, 'stdout {!r} expected {!r} | {}'.format(
            whole_got, whole_want.replace('\x00', '( )'), script), replay)
        return
    ctx.count('bytes_compared', len(whole_got))
    if len(got) != len(segs):
        ctx.violation('order:device-count', 'device requests {} expected {} | {}'
                      .format(len(got) - 1, len(segs) - 1, script), replay)
        return
    for i, (g, w) in enumerate(zip(got, segs)):
        last = i == len(segs) - 1
        if not re.match(pattern(w, final_nl and last), g, re.S):
            ctx.violation('order:text-vs-device',
                          'segment {} (between device requests) is {!r}, '
                          'expected {!r} | {}'.format(
                              i, g, w.replace('\x00', '( )'), script), replay)
            return
    ctx.count('segments_compared', len(segs))


# names of internal registers that a script can also use for a variable and
# whose content does not change while a script without device commands runs
# (`pc`, `result` and `operand` do change: no fixed expectation for them)
INTERNAL_NAMES = ['power', 'name', 'first_zone', 'last_zone', 'first_row',
                  'last_column', 'unit_mode', 'disc_forward', 'matrix']


def stdout_of(script):
    saved = sys.stdout
    sys.stdout = Tee()
    try:
        r = run_script(script)
    finally:
        sys.stdout = saved
    return r, ''.join(e[1] for e in r.log if e[0] == 'stdout')


def part_named_twice(ctx):
    """one format string executed twice, a variable of the field's name
    coming into being (or going out of scope) in between: "named fields take
    the *current* register or variable of that name" -- what the name meant
    the first time says nothing about the second"""
    rng = ctx.rng('twice', ctx.shard)
    for _ in range(12 if ctx.tier == 'quick' else 400):
        n = rng.choice(INTERNAL_NAMES + ['zz_fresh'])
        v = rng.choice([11, 2.5, '"txt"', -3])
        shown = str(v).strip('"')
        spec = rng.choice(['', '', '!s', ':>6'])
        if isinstance(v, str) and spec == ':>6':
            pass
        fld = '{' + n + spec + '}'
        alone_r, alone = (None, None)
        if n != 'zz_fresh':
            alone_r, alone = stdout_of('printf "={}" println'.format(fld))
            if not alone_r.accepted or alone_r.stops:
                ctx.count('undecidable:register-field-alone')
                continue
        fmt = lambda val: '=' + ('{' + spec + '}').format(val)
        val = v.strip('"') if isinstance(v, str) else v
        shapes = []
        if n != 'zz_fresh':
            shapes.append((
                'define report begin printf "={F}" println end report '
                'assign {N} {V} report', [alone.rstrip('\n'), fmt(val)]))
            shapes.append((
                'define show with {N} begin printf "={F}" println end '
                'show {V} printf "={F}" println show {V}',
                [fmt(val), alone.rstrip('\n'), fmt(val)]))
            shapes.append((
                'repeat with zz_i from 1 to 2 begin if {{ zz_i == 2 }} '
                'assign {N} {V} printf "={F}" println end',
                [alone.rstrip('\n'), fmt(val)]))
        shapes.append((
            'define show with {N} begin printf "={F}" println end '
            'define other with zz_o begin assign {N} 99 printf "={F}" '
            'println end show {V} other 1 show {V}',
            [fmt(val), fmt(99), fmt(val)]))
        # a parameter hides a global of the same name for the whole body,
        # also after the routine assigns to it
        shapes.append((
            'assign {N} 5 define show with {N} begin printf "={F}" println '
            'assign {N} 77 printf "={F}" println end show {V} '
            'printf "={F}" println',
            [fmt(val), fmt(77), fmt(5)]))
        shapes.append((
            'assign {N} 5 define inner with {N} begin printf "={F}" println '
            'end define outer with {N} begin inner {V} printf "={F}" println '
            'end outer 8 printf "={F}" println',
            [fmt(val), fmt(8), fmt(5)]))
        text, want = rng.choice(shapes)
        script = text.replace('{F}', fld).replace('{N}', n).replace(
            '{V}', str(v)).replace('{{', '{').replace('}}', '}')
        r, out = stdout_of(script)
        ctx.case('N2:' + script)
        replay = {'script': script, 'part': 'named-twice'}
        if not r.accepted or r.stops:
            ctx.violation('named-twice:rejected-or-aborted', '{} {} | {}'
                          .format(r.errors.strip(), r.stops[:1], script),
                          replay)
            continue
        got = out.split('\n')
        if got and got[-1] == '':
            got.pop()
        if got != want:
            ctx.violation('named-twice:stale-meaning',
                          'stdout lines {} expected {} | {}'.format(
                              got, want, script), replay)
        else:
            ctx.count('named_fields_re_resolved')


def run_shard(ctx):
    env.configure(simnet.make_devices(DEVICES), output='stdout')
    part_named_twice(ctx)
    n = N[ctx.tier]
    for i in range(ctx.shard, n, ctx.nshards):
        rng = ctx.rng('c19', i)
        REPEATED[0] = False
        script, segs, final_nl, outputs = build(rng)
        ctx.case('S:' + script, nontrivial=outputs >= 2)
        if REPEATED[0]:
            ctx.count('scripts_with_repeated_field_numbers')
        # what a script writes does not depend on how much the program logs
        # (`lsrun -v`, log_level DEBUG in a configuration file)
        verbose = i % 7 == 5
        root = logging.getLogger()
        level = root.level
        if verbose:
            root.setLevel(logging.DEBUG)
            ctx.count('scripts_run_at_log_level_debug')
        try:
            check_case(ctx, script, segs, final_nl,
                       {'script': script, 'segments': segs,
                        'final_nl': final_nl, 'log_level_debug': verbose,
                        'repeated_field_numbers': REPEATED[0]})
        finally:
            root.setLevel(level)
        if i % 1000 < ctx.nshards:
            ctx.sample({'script': script, 'expected_stdout':
                        ''.join(segs).replace('\x00', '( )')})
    # fixed probes
    if ctx.shard == 0:
        for script, want in [
                ('hue 120 saturation 50 print hue print saturation',
                 ['120 50']),
                ('println "-----" print hue print saturation println kelvin',
                 ['-----\n40 7.25 2700\n']),
                ('printf "{} {hue}" 123', ['123 40']),
                ('print 1 set "Top" print 2 println 3', ['1', ' 2 3\n'])]:
            ctx.case('P:' + script)
            check_case(ctx, script, want, True, {'script': script,
                                                  'segments': want,
                                                  'final_nl': True})


def finalize(merged):
    c = merged['counters']
    if not c.get('bytes_compared') and not merged['violations']:
        merged['inconclusive'].append('no stdout text was compared')
    if not c.get('named_fields_re_resolved') and not merged['violations']:
        merged['inconclusive'].append('no format string was executed twice')


def replay(doc):
    from bvf.harness import Ctx
    env.configure(simnet.make_devices(DEVICES), output='stdout')
    ctx = Ctx('C19', 'quick', 0, 0, 1)
    r = doc['replay']
    check_case(ctx, r['script'], r['segments'], r['final_nl'], r)
    print(r['script'])
    for v in ctx.violations:
        print('VIOLATION property=C19', v['mech'], v['what'][:400])
    return 1 if ctx.violations else 0
