"""C02 -- expressions follow the documented precedence, associativity and
arithmetic; the same value in every position; built-ins; random.

E  random expression trees (depth <= 6) are evaluated directly in Python (the
   tree *is* the grouping); the text is rendered from the tree with minimal or
   redundant parentheses computed from the documented table, so a compiler
   that groups differently prints a different value.  A case is non-trivial
   when at least one alternative reading of the same text (all operators left
   to right, ^ left-associative, and/or swapped, +- above */) gives a
   different value.
P  the same tree is placed in every syntactic position (print, assign,
   register, argument, if, repeat-while, loop count, from/to bound).
B  built-in functions against the math module on random arguments.
R  [random a b]: every draw an integer in [a, b], every integer of the range
   seen in 3000 draws (false "missing" probability < 1e-100).
"""
import math

from bvf import diffrun, env, render, simnet
from bvf.oracle import lit
from bvf.refmodel import close
from bvf.runner import run_script

ID = 'C02'
MANIFEST = {
    'category': 'exploration',
    'technique': 'direct evaluation of generated expression trees as oracle for '
                 'printed values; statistical monitor for random',
    'text': 'Random expression trees over int/float literals, variables, '
            'macros, registers, built-in and user function calls with all 15 '
            'binary operators and unary minus are rendered with minimal or '
            'redundant parentheses and compiled in eight syntactic positions; '
            'the printed value must equal the direct evaluation of the tree. '
            'Adjacent-operator pairs are counted; a case only counts as '
            'non-trivial if an alternative grouping of its text evaluates '
            'differently. Built-ins are compared with the math module, random '
            'by range and completeness of 3000 draws per range. Sampled.'
            ' Integer literals between 2^53 and 2^90 are compared with Py'
            'thon integers in differences, remainders and comparisons.'
            ' In raw units duration and time are set from expressions bey'
            'ond 16 bits and read back.',
    'note': 'Trusted: Python arithmetic as the meaning of + - * / % ^ and the '
            'comparisons; unary minus binds to the following atom (a signed '
            'operand is always parenthesised where that matters); negative '
            'arguments of sqrt are not judged (manual and the repository\'s '
            'own test disagree); round only needs to be within 0.5.',
}
LEVEL = 'exploration'
SHARDS = {'quick': 16, 'thorough': 16}
N = {'quick': 4000, 'thorough': 200000}
TIMEOUT = {'quick': 900, 'thorough': 10800}
RULE = ('E/P: one case = one expression tree placed in up to 8 positions '
        '(evaluations count positions); non-trivial = some alternative '
        'grouping of the rendered text has a different value; distinct = '
        'distinct rendered texts. B: one case = one built-in call. R: one '
        'case = one range with 3000 draws.')
ASSUMPTIONS = [
    'operands of arithmetic and comparisons are numbers (truth values are not '
    'used as numbers)',
    'both operands of and/or are evaluated (no calls with side effects there)',
]

ARITH = ['+', '-', '*', '/', '%', '^']
CMP = ['<', '<=', '>', '>=', '==', '!=']
LOGIC = ['and', 'or']
ALL_OPS = ARITH + CMP + LOGIC
VARS = {'a': 3, 'b': 2.5, 'c': -4, 'd': 0, 'n': 7}
MACROS = {'M': 5, 'HALF': 0.5}
REGS = {'hue': 40, 'saturation': 7.25, 'brightness': 0, 'kelvin': 2700,
        'duration': 1.5}
PRELUDE = (' '.join('assign {} {}'.format(k, lit(v)) for k, v in VARS.items())
           + ' ' + ' '.join('define {} {}'.format(k, lit(v))
                            for k, v in MACROS.items())
           + ' ' + ' '.join('{} {}'.format(k, lit(v)) for k, v in REGS.items())
           + ' define sq with x begin return { x * x } end'
           + ' define avg with p q begin return { ( p + q ) / 2 } end'
           + ' define idf with v begin return v end'
           # a function that leaves through `return` from inside two loops,
           # the outer one over the lights, with lights still to come
           + ' define pick with x begin repeat all as zl begin repeat 2 begin '
             'return { x + 1 } end end return 0 end'
           # parameters deliberately named like the caller's variables
           + ' define second with a b begin return b end'
           + ' define third with n c d begin return d end ')
USER = {'sq': lambda x: x * x, 'avg': lambda p, q: (p + q) / 2,
        'pick': lambda x: x + 1}


class Bad(Exception):
    pass


def ev(e):
    t = e[0]
    if t == 'num':
        return e[1]
    if t == 'var':
        return VARS[e[1]]
    if t == 'macro':
        return MACROS[e[1]]
    if t == 'reg':
        return REGS[e[1]]
    if t == 'paren':
        return ev(e[1])
    if t == 'neg':
        v = ev(e[1])
        if isinstance(v, bool):
            raise Bad()
        return v * -1
    if t == 'pos':
        v = ev(e[1])
        if isinstance(v, bool):
            raise Bad()
        return v
    if t == 'call':
        args = [ev(a) for a in e[2]]
        if e[1] in USER:
            return USER[e[1]](*args)
        return builtin_value(e[1], args)
    a, b = ev(e[2]), ev(e[3])
    return apply(e[1], a, b)


def apply(op, a, b):
    try:
        if op in LOGIC:
            return (bool(a) and bool(b)) if op == 'and' else (bool(a) or bool(b))
        if isinstance(a, bool) or isinstance(b, bool):
            raise Bad()
        if op == '+':
            v = a + b
        elif op == '-':
            v = a - b
        elif op == '*':
            v = a * b
        elif op == '/':
            v = a / b
        elif op == '%':
            v = a % b
        elif op == '^':
            if abs(b) > 6 or abs(a) > 1e4:
                raise Bad()
            v = a ** b
        elif op == '<':
            return a < b
        elif op == '<=':
            return a <= b
        elif op == '>':
            return a > b
        elif op == '>=':
            return a >= b
        elif op == '==':
            return a == b
        else:
            return a != b
    except (ZeroDivisionError, OverflowError, ValueError):
        raise Bad()
    if isinstance(v, complex) or v != v or abs(v) > 1e15:
        raise Bad()
    return v


def builtin_value(name, args):
    x = args[0]
    try:
        if name == 'floor':
            return math.floor(x)
        if name == 'ceil':
            return math.ceil(x)
        if name == 'trunc':
            return math.trunc(x)
        if name == 'round':
            return round(x)
        if name == 'sqrt':
            if x < 0:
                raise Bad()
            return math.sqrt(x)
        if name == 'sin':
            return math.sin(math.radians(x))
        if name == 'cos':
            return math.cos(math.radians(x))
        if name == 'cycle':
            return x % 360
    except (ValueError, OverflowError):
        raise Bad()
    raise Bad()


def gen_num(rng, depth):
    """numeric-valued tree"""
    r = rng.random()
    if depth <= 0 or r < 0.25:
        r2 = rng.random()
        if r2 < 0.45:
            return ['num', rng.choice([0, 1, 2, 3, 4, 5, 7, 10, 12, 100])]
        if r2 < 0.6:
            return ['num', rng.choice([0.5, 1.5, 2.25, 0.1, 3.75, 10.0])]
        if r2 < 0.75:
            return ['var', rng.choice(list(VARS))]
        if r2 < 0.82:
            return ['macro', rng.choice(list(MACROS))]
        if r2 < 0.9:
            return ['reg', rng.choice(list(REGS))]
        if r2 < 0.95:
            return ['num', -rng.choice([1, 2, 3, 0.5])]
        return ['neg', ['var', rng.choice(list(VARS))]]
    if r < 0.33 and depth >= 1:
        f = rng.choice(['sq', 'avg', 'floor', 'ceil', 'trunc', 'sqrt', 'cycle',
                        'pick', 'pick'])
        n = 2 if f == 'avg' else 1
        return ['call', f, [gen_num(rng, depth - 2) for _ in range(n)]]
    if r < 0.38:
        inner = gen_num(rng, depth - 1)
        if rng.random() < 0.25:       # runs of signs: - - x, - + x, - - - x
            inner = [rng.choice(['neg', 'neg', 'pos']), inner]
            if rng.random() < 0.3:
                inner = ['neg', inner]
        return ['neg', inner]
    op = rng.choice(ARITH)
    return ['bin', op, gen_num(rng, depth - 1), gen_num(rng, depth - 1)]


def gen_bool(rng, depth):
    r = rng.random()
    if depth <= 1 or r < 0.5:
        return ['bin', rng.choice(CMP), gen_num(rng, depth - 1),
                gen_num(rng, depth - 1)]

    def operand():
        return gen_bool(rng, depth - 1) if rng.random() < 0.7 \
            else gen_num(rng, depth - 2)
    return ['bin', rng.choice(LOGIC), operand(), operand()]


def flat(e, parent=None, side=None):
    """token-level view: list of atoms (values), operator strings and nested
    lists where the minimal rendering puts parentheses"""
    t = e[0]
    if t != 'bin':
        if t == 'paren':
            return [flat(e[1])]
        return [('atom', ev(e))]
    p = render.PREC[e[1]]
    wrap = False
    if parent is not None:
        pp = render.PREC[parent]
        wrap = p < pp or (p == pp and (side == 'L') == (parent in render.RIGHT))
    items = flat(e[2], e[1], 'L') + [e[1]] + flat(e[3], e[1], 'R')
    return [items] if wrap else items


ALT_TABLES = {
    'flat-left': ({op: 1 for op in ALL_OPS}, set()),
    'pow-left': (dict(render.PREC), set()),
    'and-or-swapped': (dict(render.PREC, **{'and': 1, 'or': 2}), {'^'}),
    'addsub-above-muldiv': (dict(render.PREC, **{'+': 5, '-': 5, '*': 4,
                                                 '/': 4, '%': 4}), {'^'}),
    'cmp-above-arith': (dict(render.PREC, **{c: 7 for c in CMP}), {'^'}),
    'all-right': (dict(render.PREC), set(ALL_OPS)),
}


def alt_eval(items, prec, right):
    """precedence climbing over the flat view with another table"""
    pos = [0]

    def atom():
        it = items[pos[0]]
        pos[0] += 1
        if isinstance(it, list):
            return alt_eval(it, prec, right)
        return it[1]

    def expr(min_p):
        lhs = atom()
        while pos[0] < len(items):
            op = items[pos[0]]
            p = prec[op]
            if p < min_p:
                break
            pos[0] += 1
            rhs = expr(p if op in right else p + 1)
            lhs = apply(op, lhs, rhs)
        return lhs
    return expr(0)


def nontrivial(tree, value):
    items = flat(tree)
    for name, (prec, right) in ALT_TABLES.items():
        try:
            v = alt_eval(items, prec, right)
        except Bad:
            return True
        if not close(v, value):
            return True
    return False


def op_pairs(e, out, parent=None):
    if e[0] == 'bin':
        if parent:
            out.add((parent, e[1]))
        op_pairs(e[2], out, e[1])
        op_pairs(e[3], out, e[1])
    elif e[0] in ('neg', 'pos', 'paren'):
        op_pairs(e[1], out, parent)
    elif e[0] == 'call':
        for a in e[2]:
            op_pairs(a, out, None)


def braces(rng, tree, redundant):
    toks = []
    render.Renderer(rng, redundant=redundant).expr(tree, toks)
    return '{ ' + ' '.join(toks) + ' }'


def expected_prints(position, value):
    truth = bool(value)
    if position in ('print', 'assign', 'register', 'argument', 'bound',
                    'argument2', 'argument3'):
        return [value]
    if position == 'if':
        return [1 if truth else 0]
    if position == 'while':
        return [1, 2] if truth else [2]
    if position == 'count':
        return [1] * value
    raise AssertionError(position)


def script_for(position, text):
    if position == 'print':
        return 'print ' + text
    if position == 'assign':
        return 'assign zz ' + text + ' print zz'
    if position == 'register':
        return 'hue ' + text + ' print hue'
    if position == 'argument':
        return 'print [ idf ' + text + ' ]'
    if position == 'argument2':
        return 'print [ second 99 ' + text + ' ]'
    if position == 'argument3':
        return 'print { 1 * [ third 77 { 88 } ' + text + ' ] }'
    if position == 'if':
        return 'if ' + text + ' print 1 else print 0'
    if position == 'while':
        return 'repeat while ' + text + ' begin print 1 break end print 2'
    if position == 'count':
        return 'repeat ' + text + ' print 1'
    if position == 'bound':
        return 'repeat with zi from ' + text + ' to ' + text + ' print zi'
    raise AssertionError(position)


def outputs(run):
    return [e[2] for e in run.log if e[0] == 'out' and e[1] == 'out']


def part_expr(ctx):
    n = N[ctx.tier]
    seen_pairs = set()
    for i in range(ctx.shard, n, ctx.nshards):
        rng = ctx.rng('expr', i)
        for _ in range(50):
            depth = rng.choice([2, 3, 3, 4, 5, 6])
            tree = gen_bool(rng, depth) if rng.random() < 0.35 \
                else gen_num(rng, depth)
            try:
                value = ev(tree)
                break
            except Bad:
                continue
        else:
            continue
        text = braces(rng, tree, rng.choice([0.0, 0.0, 0.3]))
        nt = nontrivial(tree, value)
        pairs = set()
        op_pairs(tree, pairs)
        seen_pairs |= pairs
        positions = ['print', 'assign', 'argument', 'argument2', 'if', 'while']
        if not isinstance(value, bool):
            positions.append('register')
            positions.append('argument3')     # (a call inside arithmetic)
            if isinstance(value, int) and 0 <= value <= 6:
                positions.append('count')
            if isinstance(value, int) and abs(value) < 10 ** 6:
                positions.append('bound')
        ctx.sigs.add('E:' + text) if nt else None
        for pos in positions:
            script = PRELUDE + script_for(pos, text)
            r = run_script(script)
            ctx.evaluations += 1
            ctx.count('position:' + pos)
            replay = {'part': 'expr', 'script': script, 'tree': tree,
                      'position': pos, 'value': repr(value)}
            if not r.accepted:
                ctx.violation('expr:rejected:' + pos, '{} | {}'.format(
                    r.errors.strip(), script_for(pos, text)), replay)
                break
            if r.stops:
                ctx.violation('expr:abort:' + str(r.stops[0][1]),
                              '{} | {}'.format(r.stops[0][:3],
                                               script_for(pos, text)), replay)
                break
            got = outputs(r)
            want = expected_prints(pos, value)
            ok = len(got) == len(want) and all(
                close(g, w) for g, w in zip(got, want))
            if not ok:
                ctx.violation(
                    'expr:value:' + pos,
                    '{} -> printed {} expected {} (tree value {!r})'.format(
                        script_for(pos, text), got[:6], want[:6], value), replay)
                break
        if i % 800 < ctx.nshards:
            ctx.sample({'part': 'expr', 'text': text, 'value': repr(value),
                        'nontrivial': nt})
    ctx.extra['pairs'] = sorted(seen_pairs)


def near_integer(r):
    if r.random() < 0.25:
        return 2 ** 53 + r.randint(1, 10 ** 6)
    return r.randint(-5, 5) + r.choice([1e-10, -1e-10, 5e-10, -3e-10, 1e-12,
                                        -1e-12, 1e-7, -1e-7])


BUILTIN_ARGS = {
    'round': lambda r: r.choice([r.uniform(-50, 50), r.randint(-9, 9) + 0.25,
                                 r.randint(-9, 8) + 0.5, r.randint(-9, 8) + 0.5,
                                 r.randint(-9, 9) + 0.75, r.randint(-5, 5)]),
    # (also a hair's breadth away from an integer, and integers too large for
    # a float to hold exactly)
    'trunc': lambda r: r.choice([r.uniform(-50, 50), near_integer(r)]),
    'floor': lambda r: r.choice([r.uniform(-50, 50), float(r.randint(-5, 5)),
                                 near_integer(r), near_integer(r)]),
    'ceil': lambda r: r.choice([r.uniform(-50, 50), float(r.randint(-5, 5)),
                                near_integer(r), near_integer(r)]),
    'sqrt': lambda r: r.choice([r.uniform(0, 1000), 0, 4, 2.25]),
    'sin': lambda r: r.uniform(-720, 720),
    'cos': lambda r: r.uniform(-720, 720),
    'tan': lambda r: r.choice([r.uniform(-80, 80), 45, 0]),
    'asin': lambda r: r.uniform(-1, 1),
    'acos': lambda r: r.uniform(-1, 1),
    'atan': lambda r: r.uniform(-100, 100),
    'cycle': lambda r: r.choice([r.uniform(-2000, 4000), 355, 365, -10, 360,
                                 3607, 0, 720, -360]),
}
BUILTIN_REF = {
    'trunc': math.trunc, 'floor': math.floor, 'ceil': math.ceil,
    'sqrt': math.sqrt,
    'sin': lambda x: math.sin(math.radians(x)),
    'cos': lambda x: math.cos(math.radians(x)),
    'tan': lambda x: math.tan(math.radians(x)),
    'asin': lambda x: math.degrees(math.asin(x)),
    'acos': lambda x: math.degrees(math.acos(x)),
    'atan': lambda x: math.degrees(math.atan(x)),
}


def part_builtins(ctx):
    n = (60000 if ctx.tier == 'thorough' else 3200) // ctx.nshards
    rng = ctx.rng('builtin', ctx.shard)
    for _ in range(n):
        name = rng.choice(sorted(BUILTIN_ARGS))
        x = BUILTIN_ARGS[name](rng)
        if isinstance(x, float) and not 0 < abs(x - round(x)) < 1e-6:
            x = float(repr(round(x, rng.choice([0, 1, 3, 6]))))
        form = rng.choice(['lit', 'var', 'expr'])
        arg = {'lit': lit(x) if x >= 0 else '{ ' + lit(x) + ' }',
               'var': 'zx', 'expr': '{ zx * 1 }'}[form]
        script = 'assign zx {} print [ {} {} ]'.format(lit(x), name, arg)
        r = run_script(script)
        ctx.case('B:{}:{}'.format(name, x))
        ctx.count('builtin:' + name)
        replay = {'part': 'builtin', 'script': script}
        got = outputs(r)
        if not r.accepted or r.stops or len(got) != 1:
            ctx.violation('builtin:abort:' + name, '{} -> {} {} {}'.format(
                script, r.errors, r.stops[:1], got), replay)
            continue
        g = got[0]
        if name == 'round':
            ok = isinstance(g, int) and not isinstance(g, bool) \
                and abs(g - x) <= 0.5
            if ok and abs(x - math.trunc(x)) == 0.5:
                # an exact tie: the manual's examples (1.5 -> 2, -1.5 -> -2)
                # allow rounding to even and rounding away from zero, nothing
                # else
                away = math.trunc(x) + (1 if x > 0 else -1)
                ok = g in (round(x), away)
        elif name == 'cycle':
            ok = 0 <= g < 360 and close((g - x) % 360, 0, abs_=1e-6) or \
                close((g - x) % 360, 360, abs_=1e-6)
        else:
            want = BUILTIN_REF[name](x)
            ok = close(g, want, rel=1e-12, abs_=1e-12)
            if name in ('trunc', 'floor', 'ceil'):
                ok = ok and isinstance(g, int)
        if not ok:
            ctx.violation('builtin:value:' + name, '{} printed {!r}'.format(
                script, g), replay)
    ctx.sample({'part': 'builtin', 'script': 'print [ cycle 365 ]',
                'expected': 5})


RANGES = [(1, 1), (0, 1), (1, 6), (1, 100), (-3, 3), (0, 0), (5, 9), (-10, -7),
          (0, 9), (10, 12), (-1, 0), (2, 3), (7, 7), (100, 104), (-50, -45),
          (0, 15), (3, 4), (1, 2), (20, 29), (-2, 2), (6, 6), (0, 2), (1, 10),
          (-9, -9), (50, 55), (0, 5), (8, 11), (-4, -1), (0, 7), (1, 3),
          (1000, 1003), (-1, 1), (4, 8), (30, 31), (0, 19), (9, 9), (12, 20),
          (-20, -12), (0, 3), (1, 5)]


def part_random(ctx):
    draws = 3000
    for i, (a, b) in enumerate(RANGES):
        if not ctx.mine(i):
            continue
        form = i % 3
        if form == 0:
            call = '[ random {} {} ]'.format(
                lit(a) if a >= 0 else '{ ' + lit(a) + ' }',
                lit(b) if b >= 0 else '{ ' + lit(b) + ' }')
            pre = ''
        elif form == 1:
            pre = 'assign lo {} assign hi {} '.format(lit(a), lit(b))
            call = '[ random lo hi ]'
        else:
            pre = 'assign lo {} '.format(lit(a))
            call = '[ random {{ lo + 0 }} {{ lo + {} }} ]'.format(b - a)
        script = pre + 'repeat {} begin print {} end'.format(draws, call)
        r = run_script(script, budget=draws * 40)
        got = outputs(r)
        ctx.case('R:{}:{}'.format(a, b))
        ctx.count('random_draws', len(got))
        replay = {'part': 'random', 'script': script}
        if not r.accepted or r.stops or len(got) != draws:
            ctx.violation('random:abort', '{} -> {} {} n={}'.format(
                script, r.errors, r.stops[:1], len(got)), replay)
            continue
        bad = [g for g in got if not (isinstance(g, int)
                                      and not isinstance(g, bool)
                                      and a <= g <= b)]
        if bad:
            ctx.violation('random:out-of-range',
                          '[random {} {}] produced {!r}'.format(a, b, bad[:5]),
                          replay)
            continue
        missing = sorted(set(range(a, b + 1)) - set(got))
        if missing:
            ctx.violation(
                'random:value-never-produced',
                '[random {} {}] never produced {} in {} draws'.format(
                    a, b, missing[:6], draws), replay)
    ctx.sample({'part': 'random', 'range': [1, 6], 'draws': draws})


DEEP = [
    # recursion with an operand pending at every level
    ('define total with n begin if { n <= 0 } return 0 '
     'return { n + [ total { n - 1 } ] } end print [ total 600 ] '
     'print { 1 + [ total 300 ] * 2 }', [180300, 90301]),
    # the call first, the operand after it
    ('define total with n begin if { n <= 0 } return 0 '
     'return { [ total { n - 1 } ] + n } end print [ total 700 ]', [245350]),
    # 600 operators grouping right to left, nothing reducible until the end
    ('print { ' + ' ^ '.join(['1'] * 600) + ' ^ 2 }', [1]),
    ('print { 2 ^ ' + ' ^ '.join(['1'] * 300) + ' }', [2]),
    # long chains grouping left to right
    ('print { ' + ' + '.join(['1'] * 2000) + ' }', [2000]),
    ('print { 1000 ' + ' - 1' * 900 + ' }', [100]),
    ('print { ' + ' * '.join(['1'] * 500) + ' * 7 }', [7]),
    # right operands that are themselves pending: a + ( a + ( a + ... ) )
    ('print { ' + '1 + ( ' * 120 + '1' + ' )' * 120 + ' }', [121]),
    ('print { ' + ' or '.join(['0'] * 400) + ' or 3 }', [True]),
    ('print { ' + ' and '.join(['1'] * 400) + ' and 0 }', [False]),
]


def part_deep(ctx):
    """trees "of any depth": hundreds of pending operands"""
    for text, want in DEEP:
        r = run_script(text)
        ctx.case('D:' + text[:80] + str(len(text)))
        replay = {'part': 'deep', 'script': text}
        got = outputs(r)
        if not r.accepted or r.stops or got != want:
            ctx.violation('expr:deep', 'printed {} expected {} {} {} | {}...'
                          .format(got, want, r.errors.strip()[:80],
                                  r.stops[:1], text[:120]), replay)
        else:
            ctx.count('deep_expressions_ok')


def part_big_literals(ctx):
    """integer literals beyond 2**53: a literal denotes its number exactly
    (the same number computed at run time is exact, so must the literal be)"""
    rng = ctx.rng('biglit', ctx.shard)
    for _ in range(40 if ctx.tier == 'quick' else 1500):
        a = 2 ** rng.randint(53, 90) + rng.randint(1, 10 ** 6) * 2 + 1
        b = a - rng.randint(1, 9)
        shape = rng.randrange(8)
        if shape >= 6:
            # the same value wherever the expression is used: in raw units a
            # duration or delay of minutes is a number far beyond 16 bits, and
            # the register holds what the expression came to
            m = rng.choice([2, 5, 90, 1440])
            reg = rng.choice(['duration', 'time'])
            text = ('units raw assign zz_m {m} {reg} {{ zz_m * 60 * 1000 }} '
                    'print {reg} print {{ {reg} + 1 }} assign zz_v '
                    '{{ zz_m * 60 * 1000 }} print zz_v {reg} 0'
                    .format(m=m, reg=reg))
            want = [m * 60000, m * 60000 + 1, m * 60000]
        elif shape == 0:
            text, want = 'print {{ {} - {} }}'.format(a, b), [a - b]
        elif shape == 1:
            text, want = 'print {{ {} % 10 }} print {{ {} % 7 }}'.format(a, b), \
                [a % 10, b % 7]
        elif shape == 2:
            text, want = 'print {{ {} == {} }} print {{ {} > {} }}'.format(
                a, b, a, b), [False, True]
        elif shape == 3:
            text, want = ('define BIG {} assign v {} print {{ BIG - v }} '
                          'print BIG'.format(a, b)), [a - b, a]
        elif shape == 4:
            text, want = ('define f with x begin return {{ x - {} }} end '
                          'print [ f {} ]'.format(b, a)), [a - b]
        else:
            text, want = ('assign v {{ {} + 1 }} if {{ v == {} }} print 1 else '
                          'print 0 print {{ {} * 3 - {} * 3 }}'.format(
                              a - 1, a, a, b)), [1, 3 * (a - b)]
        r = run_script(text)
        ctx.case('B:' + text)
        got = outputs(r)
        if not r.accepted or r.stops or got != want:
            ctx.violation('literal:beyond-2^53',
                          'printed {} expected {} {} | {}'.format(
                              got, want, r.errors.strip()[:80], text[:200]),
                          {'part': 'big-literals', 'script': text})
        else:
            ctx.count('big_literals_exact')


def run_shard(ctx):
    env.configure(simnet.make_devices([
        dict(label='A', group='G', location='P'),
        dict(label='B', group='G', location='P'),
        dict(label='C', group='G', location='P')]))
    if ctx.shard == 0:
        part_deep(ctx)
    part_big_literals(ctx)
    part_expr(ctx)
    part_builtins(ctx)
    part_random(ctx)


def finalize(merged):
    pairs = set()
    for lst in merged['extra'].get('pairs', []):
        pairs |= {tuple(p) for p in lst}
    c = merged['counters']
    merged['coverage_extra'] = {
        'adjacent_operator_pairs_observed': len(pairs),
        'adjacent_operator_pairs_possible_with_typed_operands':
            len(ARITH + CMP) * len(ARITH) + len(LOGIC) * len(ALL_OPS),
        'random_draws': c.get('random_draws', 0)}
    if len(pairs) < 60 and not merged['violations']:
        merged['inconclusive'].append(
            'only {} adjacent operator pairs observed'.format(len(pairs)))
    for need in ('position:count', 'position:bound', 'position:while',
                 'builtin:cycle', 'random_draws', 'big_literals_exact'):
        if not c.get(need):
            merged['inconclusive'].append('never observed: ' + need)


def replay(doc):
    env.configure(simnet.make_devices([dict(label='A', group='G',
                                            location='P')]))
    r = doc['replay']
    run = run_script(r['script'], budget=20000)
    print(r['script'])
    print('accepted', run.accepted, run.errors, 'stops', run.stops[:1])
    print('printed', outputs(run)[:20], 'expected value', r.get('value'))
    return 0
