"""C12 -- device faults and wrong-type targets never abort a script or disturb
others; discovery never raises.

Fault enumeration over the simulated network layer (bvf/simnet.FaultPlan):
a fault-free baseline run of a script gives the list of requests every
device receives; every single request is then failed k = 1, 2, 3 times in a
row, every device is made silent (for one method or altogether) and random
multi-fault plans are drawn.  Monitors per faulted run:
  * the script reaches its last statement (marker output) and the VM's
    catch-all never fires;
  * attempt counting in the simulator + the log: at most three attempts per
    logical request, a retry only after a failure, and an abandoned request
    is followed by the "Giving up" log entry;
  * differential: every device receives exactly its baseline requests minus
    the abandoned ones;
  * the fault-free baseline itself is compared with a run of the same script
    from which every operand naming an unknown light/group/location or asking
    a light for a capability it lacks has been deleted: every device other
    than the mis-addressed one has identical traffic.
Discovery: after a successful first discovery every request a second
discovery makes is failed (k = 1..3, device silent); discover() must not
raise, a False return must leave every directory getter unchanged, and a
script run afterwards must still reach its end.
"""
from bvf import env, simnet
from bvf.env import injection, i_controller
from bvf.runner import run_script
from bardolph.controller import light_set as light_set_mod

ID = 'C12'
MANIFEST = {
    'category': 'fault_enumeration',
    'technique': 'fault-plan enumeration at the simulated lifxlan boundary '
                 'with a differential oracle against the fault-free run and '
                 'attempt counting',
    'text': 'For scripts using every command kind on every device kind plus '
            'unknown names and capability mismatches, all single-request fault '
            'plans (every request of the baseline run x 1, 2 or 3 consecutive '
            'failures), all silent-device and silent-method plans and seeded '
            'random multi-fault plans are executed; planned faults that never '
            'triggered do not count. Discovery is faulted on every request it '
            'makes for each device kind. Enumerated for single faults per '
            'script variant, sampled for multi-fault plans.'
            ' Names that exist as another kind of thing (a location asked'
            ' for as a group, a group as a location, a light as either) c'
            'ount as unknown.'
            ' Padded and other-case variants of known names count as unkn'
            'own; the production logging set-up (log_config.configure) is'
            ' performed.',
    'note': 'Trusted: simulated devices and fault plans; "does not answer" == '
            'lifxlan WorkflowException; a logical request ends on success or '
            'after three consecutive failed attempts. A failed `get` leaves '
            'the colour registers undefined, so scripts re-set them before the '
            'next transmission.',
}
LEVEL = 'fault_enumeration'
SHARDS = {'quick': 16, 'thorough': 16}
VARIANTS = {'quick': 14, 'thorough': 200}
RANDOM_PLANS = {'quick': 60, 'thorough': 300}
TIMEOUT = {'quick': 900, 'thorough': 10800}
RULE = ('one case = one (script variant, fault plan); plans are enumerated '
        'from the baseline request list; non-trivial = at least one planned '
        'fault actually triggered; distinct = distinct (script, plan).')
ASSUMPTIONS = [
    '"does not answer" is a WorkflowException from the lifxlan call',
    'broadcast (all lights) requests are fire-and-forget and cannot fail',
]

POP = [
    dict(label='A', group='G1', location='P1'),
    dict(label='B', group='G1', location='P1'),
    dict(label='Z', group='G2', location='P1', kind='mz', zones=8),
    dict(label='M', group='G2', location='P2', kind='matrix', height=3,
         width=2),
]
COLOUR = 'hue {} saturation 20 brightness 30 kelvin 2700 duration 1'
STATEMENTS = [
    'set "A"', 'set "B"', 'set "Z"', 'set "M"', 'set group "G1"',
    'set location "P1"', 'set all', 'on "A"', 'off "B"', 'on "Z"', 'off "M"',
    'on group "G2"', 'off location "P2"', 'on all', 'set "Z" zone 1 2',
    'set "Z" zone 3', 'set "M" row 0 column 1', 'set "M" begin stage row 1 end',
    'set "Nobody"', 'on "Nobody"', 'on group "NoGroup"', 'off location "NoLoc"',
    'set group "NoGroup"', 'set "A" zone 1', 'set "M" zone 0 1',
    'set "Nobody" zone 1', 'set "A" row 0', 'set "Z" row 1 column 0',
    'set "Nobody" row 0', 'set "A" begin stage row 0 end',
    'set "A" and "Nobody" and "Z" zone 0 and "B"',
    'on "B" and group "NoGroup" and "M"',
    'get "B" ' + COLOUR.format(77), 'get "Nobody" ' + COLOUR.format(78),
    'get "A" ' + COLOUR.format(79),
    'repeat all as x begin on x end',
    'repeat in group "G1" and "Z" as y begin set y end',
    'repeat in location "NoLoc" as y begin set y end',
    'repeat group as g begin off group g end',
    'set "A" set "Nobody" set "Nobody"', 'on "Z" on "Nobody" on "Nobody"',
    'set "B" set "Nobody" zone 1 set "Nobody" zone 1',
    'set "M" set "Nobody" row 0 set "Nobody" row 0',
    'set group "G2" set group "NoGroup" set group "NoGroup"',
    'get "A" get "Nobody" get "Nobody" ' + COLOUR.format(80),
    # rows, columns and zones far beyond anything a device has, aimed at
    # lights that have none at all
    'set "A" row 20', 'set "A" row 300 column 2', 'set "Nobody" row 1000',
    'set "B" begin stage row 400 column 0 999 end', 'set "Z" row 70000',
    'set "A" zone 500', 'set "M" zone 100000', 'set "Nobody" zone 70000',
    'repeat in group "NoGroup" as y begin set y end',
    'repeat in group "NoGroup" and "A" as y begin on y end',
    'repeat in location "NoLoc" and location "P2" as y begin on y end',
    # a number where a name belongs (a variable, a macro, a loop counter)
    'assign zn 3 set zn', 'assign zn 3 on zn and "A"', 'define zm 4 off zm',
    'assign zn 2.5 set group zn', 'assign zn 3 off location zn',
    'assign zn 3 set zn zone 1', 'assign zn 3 set zn row 0',
    'assign zn 7 get zn ' + COLOUR.format(81),
    'repeat with zi from 1 to 2 begin set zi end',
    'assign zn 3 repeat in zn and "B" as y begin on y end',
    # a name that exists, but as another kind of thing: a location asked for
    # as a group, a group as a location, a light as either
    'set group "P1"', 'off location "G1"', 'on group "P2"',
    'set location "G2"', 'set group "A"', 'on location "Z"',
    'repeat in group "P1" as y begin set y end',
    'on "B" and location "G1" and "M"',
    # a known name with a blank at either end, or in another case, names
    # nothing
    'set "A "', 'on " B"', 'set group "G1 "', 'off location " P1"',
    'set "Z " zone 1', 'set " M" row 0', 'set "a"', 'on group "g1"',
    'repeat in group "G1 " as y begin set y end',
    'off "B" and "A " and "Z"',
]


# what remains of a statement when the operands that name nothing, or that ask
# for a capability the light does not have, are deleted -> (remainder, lights
# addressed with a capability they lack: the statement leaves open what these
# receive, every other device is compared)
STRIPPED = {
    'set "Nobody"': ('', ()), 'on "Nobody"': ('', ()),
    'on group "NoGroup"': ('', ()), 'off location "NoLoc"': ('', ()),
    'set group "NoGroup"': ('', ()), 'set "Nobody" zone 1': ('', ()),
    'set "Nobody" row 0': ('', ()),
    'set "A" zone 1': ('', ('A',)), 'set "M" zone 0 1': ('', ('M',)),
    'set "A" row 0': ('', ('A',)), 'set "Z" row 1 column 0': ('', ('Z',)),
    'set "A" begin stage row 0 end': ('', ('A',)),
    'set "A" and "Nobody" and "Z" zone 0 and "B"':
        ('set "A" and "Z" zone 0 and "B"', ()),
    'on "B" and group "NoGroup" and "M"': ('on "B" and "M"', ()),
    'get "Nobody" ' + COLOUR.format(78): (COLOUR.format(78), ()),
    'repeat in location "NoLoc" as y begin set y end': ('', ()),
    'set "A" set "Nobody" set "Nobody"': ('set "A"', ()),
    'on "Z" on "Nobody" on "Nobody"': ('on "Z"', ()),
    'set "B" set "Nobody" zone 1 set "Nobody" zone 1': ('set "B"', ()),
    'set "M" set "Nobody" row 0 set "Nobody" row 0': ('set "M"', ()),
    'set group "G2" set group "NoGroup" set group "NoGroup"':
        ('set group "G2"', ()),
    'get "A" get "Nobody" get "Nobody" ' + COLOUR.format(80):
        ('get "A" ' + COLOUR.format(80), ()),
    'set "A" row 20': ('', ('A',)), 'set "A" row 300 column 2': ('', ('A',)),
    'set "Nobody" row 1000': ('', ()),
    'set "B" begin stage row 400 column 0 999 end': ('', ('B',)),
    'set "Z" row 70000': ('', ('Z',)), 'set "A" zone 500': ('', ('A',)),
    'set "M" zone 100000': ('', ('M',)), 'set "Nobody" zone 70000': ('', ()),
    'repeat in group "NoGroup" as y begin set y end': ('', ()),
    'repeat in group "NoGroup" and "A" as y begin on y end':
        ('repeat in "A" as y begin on y end', ()),
    'repeat in location "NoLoc" and location "P2" as y begin on y end':
        ('repeat in location "P2" as y begin on y end', ()),
    'assign zn 3 set zn': ('', ()),
    'assign zn 3 on zn and "A"': ('on "A"', ()),
    'define zm 4 off zm': ('define zm 4', ()),
    'assign zn 2.5 set group zn': ('', ()),
    'assign zn 3 off location zn': ('', ()),
    'assign zn 3 set zn zone 1': ('', ()),
    'assign zn 3 set zn row 0': ('', ()),
    'assign zn 7 get zn ' + COLOUR.format(81): (COLOUR.format(81), ()),
    'repeat with zi from 1 to 2 begin set zi end': ('', ()),
    'assign zn 3 repeat in zn and "B" as y begin on y end':
        ('repeat in "B" as y begin on y end', ()),
    'set group "P1"': ('', ()), 'off location "G1"': ('', ()),
    'on group "P2"': ('', ()), 'set location "G2"': ('', ()),
    'set group "A"': ('', ()), 'on location "Z"': ('', ()),
    'repeat in group "P1" as y begin set y end': ('', ()),
    'on "B" and location "G1" and "M"': ('on "B" and "M"', ()),
    'set "A "': ('', ()), 'on " B"': ('', ()), 'set group "G1 "': ('', ()),
    'off location " P1"': ('', ()), 'set "Z " zone 1': ('', ()),
    'set " M" row 0': ('', ()), 'set "a"': ('', ()),
    'on group "g1"': ('', ()),
    'repeat in group "G1 " as y begin set y end': ('', ()),
    'off "B" and "A " and "Z"': ('off "B" and "Z"', ()),
}
assert all(k in STATEMENTS for k in STRIPPED)


def configure_as_production(devices):
    """env.configure, then the logging set-up every front end performs
    (light_module.configure -> log_config.configure): the log entries the
    statement speaks of are the ones that pass through that configuration.
    With the capturing handler already on the root logger basicConfig adds
    nothing, so on the repository as it stands this changes no output."""
    env.configure(devices)
    from bardolph.lib import log_config
    log_config.configure()


def build_script(rng):
    """returns (script, the same script without its no-op operands, lights
    excluded from that comparison)"""
    pool = STATEMENTS
    if rng.random() < 0.5:      # no capability mismatches: all lights compared
        pool = [s for s in STATEMENTS if not STRIPPED.get(s, ('', ()))[1]]
    stmts = rng.sample(pool, rng.randint(12, len(pool)))
    out, ref, exempt = [COLOUR.format(10)], [COLOUR.format(10)], set()
    for i, s in enumerate(stmts):
        out.append(s)
        less, ex = STRIPPED.get(s, (s, ()))
        ref.append(less)
        exempt.update(ex)
        if rng.random() < 0.2:
            out.append('hue {}'.format(11 + i))
            ref.append(out[-1])
    out.append('print 999')
    ref.append('print 999')
    return ' '.join(out), ' '.join(x for x in ref if x), exempt


def dev_log(log):
    return [e for e in log if e[0] == 'dev']


def analyse(ctx, script, plan_desc, plan, base_ok, r, replay):
    """returns True when the run satisfies the property"""
    if not r.accepted:
        ctx.violation('rejected', r.errors, replay)
        return False
    outs = [e[2] for e in r.log if e[0] == 'out' and e[1] == 'out']
    if r.stops or outs[-1:] != [999]:
        stop = r.stops[0] if r.stops else ('', 'no-marker', '', [])
        where = stop[3][-1][1] if stop[3] else '?'
        ctx.violation('script-aborted:{}:{}'.format(stop[1], where),
                      'plan {}: {} | {}'.format(plan_desc, stop[:3],
                                                script[:300]), replay)
        return False
    if r.thread_exc:
        ctx.violation('thread-exception', repr(r.thread_exc[:1]), replay)
        return False
    # attempts + alignment with the baseline, device by device
    pos = {d: 0 for d in base_ok}
    pending = None            # (key, fails)

    def settle(key, how):
        """a logical request of the baseline is finished (ok or given up)"""
        dev = key[0]
        base = base_ok.get(dev, [])
        i = pos.get(dev, 0)
        want = base[i] if i < len(base) else None
        if want != (key[1], key[2]):
            ctx.violation(
                'disturbed:' + ('faulty-device' if dev in plan.get(
                    'faulty', ()) else 'healthy-device'),
                'plan {}: device {} request #{} is {} ({}), the fault-free '
                'run has {}'.format(plan_desc, dev, i, key[1:], how, want),
                replay)
            return False
        pos[dev] = i + 1
        return True

    for e in r.log:
        if e[0] == 'dev':
            # (the reply a light gives to get_color is state, not a command)
            key = (e[1], e[2], repr(e[3]) if e[2] != 'get_color' else '()')
            if e[4] == 'FAIL':
                if pending and pending[0] == key:
                    pending = (key, pending[1] + 1)
                elif pending:
                    ctx.violation('retry:abandoned-silently',
                                  'plan {}: {} given up after {} attempt(s) '
                                  'without a log entry'.format(
                                      plan_desc, pending[0][:2], pending[1]),
                                  replay)
                    return False
                else:
                    pending = (key, 1)
                if pending[1] > 3:
                    ctx.violation('retry:more-than-three-attempts',
                                  'plan {}: {} attempted {} times'.format(
                                      plan_desc, key[:2], pending[1]), replay)
                    return False
            else:
                if pending:
                    if pending[0] != key:
                        ctx.violation('retry:abandoned-silently',
                                      'plan {}: {} dropped after {} attempt(s) '
                                      'without a log entry; next request {}'
                                      .format(plan_desc, pending[0][:2],
                                              pending[1], key[:2]), replay)
                        return False
                    ctx.count('retries_succeeded')
                    pending = None
                if not settle(key, 'ok'):
                    return False
        elif e[0] == 'log' and e[2].startswith('Giving up'):
            if not pending:
                ctx.violation('retry:gave-up-without-failure',
                              'plan {}: "Giving up" with no failed request'
                              .format(plan_desc), replay)
                return False
            if pending[1] != 3:
                ctx.violation('retry:gave-up-after-{}'.format(pending[1]),
                              'plan {}: {} abandoned after {} attempt(s)'
                              .format(plan_desc, pending[0][:2], pending[1]),
                              replay)
                return False
            ctx.count('requests_abandoned_with_log_entry')
            if not settle(pending[0], 'given up'):
                return False
            pending = None
    if pending:
        ctx.violation('retry:abandoned-silently',
                      'plan {}: {} still open at the end'.format(
                          plan_desc, pending[0][:2]), replay)
        return False
    for dev, base in base_ok.items():
        if pos.get(dev, 0) != len(base):
            ctx.violation(
                'disturbed:' + ('faulty-device' if dev in plan.get(
                    'faulty', ()) else 'healthy-device'),
                'plan {}: device {} received {} of its {} requests; missing {}'
                .format(plan_desc, dev, pos.get(dev, 0), len(base),
                        base[pos.get(dev, 0)]), replay)
            return False
    return True


def fault_plans(rng, base_requests, n_random):
    """yields (description, FaultPlan kwargs, faulty devices)"""
    counters = {}
    for e in base_requests:
        key = (e[1], e[2])
        idx = counters.get(key, 0)
        counters[key] = idx + 1
        for k in (1, 2, 3):
            yield ('{}.{}#{} x{}'.format(e[1], e[2], idx, k),
                   {'targeted': {(e[1], e[2], idx): k}}, {e[1]})
    devs = sorted({e[1] for e in base_requests})
    for d in devs:
        yield ('{} silent'.format(d), {'silent': {(d, '*')}}, {d})
    for key in sorted(counters):
        yield ('{}.{} silent'.format(*key), {'silent': {key}}, {key[0]})
    keys = []
    counters = {}
    for e in base_requests:
        key = (e[1], e[2])
        idx = counters.get(key, 0)
        counters[key] = idx + 1
        keys.append((e[1], e[2], idx))
    for j in range(n_random):
        targeted = {rng.choice(keys): rng.choice([1, 2, 3])
                    for _ in range(rng.randint(2, 6))}
        silent = set()
        if rng.random() < 0.3:
            silent.add((rng.choice(devs), '*'))
        faulty = {k[0] for k in targeted} | {s[0] for s in silent}
        yield ('random#{}'.format(j), {'targeted': targeted, 'silent': silent},
               faulty)


def per_device(requests):
    out = {d['label']: [] for d in POP}
    for e in requests:
        out.setdefault(e[1], []).append(
            (e[2], repr(e[3]) if e[2] != 'get_color' else '()'))
    return out


def compare_stripped(ctx, v, script, stripped, exempt, base_requests):
    """operands that name nothing or ask for a missing capability change
    nothing for any other device: same traffic as the script without them"""
    configure_as_production(simnet.make_devices(POP))
    simnet.set_plan(None)
    ref = run_script(stripped)
    replay = {'part': 'stripped', 'script': script, 'stripped': stripped,
              'exempt': sorted(exempt)}
    ctx.case('S:{}'.format(v), nontrivial=stripped != script)
    if not ref.accepted or ref.stops:
        ctx.violation('baseline-fails', 'stripped: {} {} | {}'.format(
            ref.errors, ref.stops[:1], stripped[:300]), replay)
        return
    have = per_device(base_requests)
    want = per_device([e for e in dev_log(ref.log) if e[4] == 'ok'])
    for dev in sorted(want):
        if dev in exempt:
            ctx.count('stripped_devices_exempt')
            continue
        ctx.count('stripped_devices_compared')
        if have[dev] != want[dev]:
            k = next((i for i, (a, b) in enumerate(zip(have[dev], want[dev]))
                      if a != b), min(len(have[dev]), len(want[dev])))
            ctx.violation(
                'unknown-or-mismatched-target:other-device-disturbed',
                'device {} request #{}: {} with the unknown names / capability '
                'mismatches in the script, {} without them | {}'.format(
                    dev, k, have[dev][k:k + 1] or 'nothing',
                    want[dev][k:k + 1] or 'nothing', script[:400]), replay)
            return


def part_scripts(ctx):
    nvar = VARIANTS[ctx.tier]
    for v in range(nvar):
        rng = ctx.rng('script', v)
        script, stripped, exempt = build_script(rng)
        configure_as_production(simnet.make_devices(POP))
        simnet.set_plan(None)
        base = run_script(script)
        if not base.accepted or base.stops:
            ctx.violation('baseline-fails', '{} {} | {}'.format(
                base.errors, base.stops[:1], script[:300]), {'script': script})
            continue
        base_requests = [e for e in dev_log(base.log) if e[4] == 'ok']
        if ctx.mine(v):
            compare_stripped(ctx, v, script, stripped, exempt, base_requests)
        base_ok = {}
        for e in base_requests:
            base_ok.setdefault(e[1], []).append(
                (e[2], repr(e[3]) if e[2] != 'get_color' else '()'))
        for d in POP:
            base_ok.setdefault(d['label'], [])
        plans = list(fault_plans(rng, base_requests, RANDOM_PLANS[ctx.tier]))
        for j, (desc, kw, faulty) in enumerate(plans):
            if not ctx.mine(j + v):
                continue
            configure_as_production(simnet.make_devices(POP))
            plan = simnet.FaultPlan(**kw)
            simnet.set_plan(plan)
            try:
                r = run_script(script)
            finally:
                simnet.set_plan(None)
            triggered = bool(plan.triggered)
            ctx.case('F:{}:{}'.format(v, desc), nontrivial=triggered)
            ctx.count('plans')
            if triggered:
                ctx.count('plans_triggered')
            replay = {'part': 'script', 'script': script, 'plan': desc,
                      'plan_kw': {k: sorted(map(list, x.items())
                                            if isinstance(x, dict) else
                                            map(list, x))
                                  for k, x in kw.items()}}
            if analyse(ctx, script, desc, {'faulty': faulty}, base_ok, r,
                       replay):
                ctx.count('runs_ok')
            if j % 400 == 0 and v == 0:
                ctx.sample({'script': script[:300], 'plan': desc,
                            'faults_triggered': sorted(map(str,
                                                           plan.triggered))})


DISCOVERY_REQUESTS = ['get_label', 'get_group', 'get_location',
                      'get_product_features', 'get_product_name',
                      'get_color_zones', 'req:GetDeviceChain']


def directory_snapshot(ls):
    return repr((list(ls.get_light_names()), list(ls.get_group_names()),
                 {g: list(ls.get_group_lights(g)) for g in ls.get_group_names()},
                 list(ls.get_location_names()),
                 {l: list(ls.get_location_lights(l))
                  for l in ls.get_location_names()}))


def part_discovery(ctx):
    plans = [('get_lights fails', {'silent': {('*', 'get_lights')}})]
    for d in POP:
        for m in DISCOVERY_REQUESTS:
            for k in (1, 2, 3):
                plans.append(('{}.{} x{}'.format(d['label'], m, k),
                              {'targeted': {(d['label'], m, 0): k}}))
            plans.append(('{}.{} silent'.format(d['label'], m),
                          {'silent': {(d['label'], m)}}))
        plans.append(('{} silent'.format(d['label']),
                      {'silent': {(d['label'], '*')}}))
    follow_up = ('hue 5 set "A" set "Z" zone 1 set "M" row 0 on "B" '
                 'set "M" begin stage row 1 end print 999')
    for j, (desc, kw) in enumerate(plans):
        if not ctx.mine(j):
            continue
        for first in ('known', 'empty'):
            configure_as_production(simnet.make_devices(POP) if first == 'known' else [])
            ls = env.light_set_instance()
            simnet.SimLan.devices = simnet.make_devices(POP)
            before = directory_snapshot(ls)
            plan = simnet.FaultPlan(**kw)
            simnet.set_plan(plan)
            replay = {'part': 'discovery', 'plan': desc, 'first': first}
            ctx.case('D:{}:{}'.format(desc, first),
                     nontrivial=True)
            try:
                result = ls.discover()
            except Exception as ex:
                ctx.violation('discover:raised:' + type(ex).__name__,
                              'plan {} ({} directory): {!r}'.format(
                                  desc, first, ex), replay)
                continue
            finally:
                simnet.set_plan(None)
            ctx.count('discoveries')
            if plan.triggered:
                ctx.count('discoveries_with_fault')
            if result is not True and result is not False:
                ctx.violation('discover:return-type', repr(result), replay)
                continue
            after = directory_snapshot(ls)
            if result is False and after != before:
                ctx.violation('discover:failed-but-changed',
                              'plan {}: directory changed although discover() '
                              'reported failure'.format(desc), replay)
                continue
            if result is False:
                ctx.count('discoveries_reported_failure')
            # the directory must still be usable by a script
            env.reset_monitors()
            r = run_script(follow_up)
            outs = [e[2] for e in r.log if e[0] == 'out' and e[1] == 'out']
            if r.stops or outs[-1:] != [999]:
                stop = r.stops[0] if r.stops else ('', 'no-marker', '', [])
                ctx.violation(
                    'discover:leaves-unusable-light:' + str(stop[1]),
                    'after discovery under plan {} (returned {}) a script '
                    'aborts: {}'.format(desc, result, stop[:3]), replay)
                continue
            ctx.count('discoveries_ok')
    ctx.sample({'part': 'discovery', 'plan': 'Z.get_color_zones silent'})


def run_shard(ctx):
    part_scripts(ctx)
    part_discovery(ctx)


def finalize(merged):
    c = merged['counters']
    for need in ('plans_triggered', 'retries_succeeded',
                 'requests_abandoned_with_log_entry', 'discoveries_with_fault',
                 'stripped_devices_compared',
                 'discoveries_reported_failure'):
        if not c.get(need) and not merged['violations']:
            merged['inconclusive'].append('monitor observed nothing: ' + need)
    merged['coverage_extra'] = {
        'fault_plans_executed': c.get('plans', 0),
        'fault_plans_triggered': c.get('plans_triggered', 0)}


def replay(doc):
    r = doc['replay']
    print(r)
    return 0
