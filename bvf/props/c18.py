"""C18 -- replaying a captured snapshot script restores the captured light
state exactly.

Capture -> perturb every device -> replay, judged on the *state* of the
simulated devices (exact integers): every plain light's colour and power,
every zone of every multizone light, every cell of every matrix light.
Both capture paths are driven: ScriptSnapshot().generate (the `lscap -s`
path) and WebApp.snapshot (file in the script directory, replayed through
WebApp.queue_script and the job controller).
"""
import os
import shutil
import sys
import time

from bvf import env, simnet
from bvf.env import injection, i_lib
from bardolph.controller.script_job import ScriptJob
from bardolph.controller.snapshot import ScriptSnapshot

ID = 'C18'
MANIFEST = {
    'category': 'exploration',
    'technique': 'state-equality oracle on simulated devices after '
                 'capture / perturb / replay through the real capture code, '
                 'compiler and VM',
    'text': 'Random populations of 1-8 devices mixing plain, multizone (1-82 '
            'zones) and matrix lights (h<=11, w<=8), raw states uniform in '
            '0..65535 plus extremes, names with blanks, punctuation, #, '
            'braces, brackets, backslashes and non-ASCII characters; the '
            'captured script must compile and, replayed against the perturbed '
            'devices, restore every captured value exactly. Sampled.'
            ' Light names that differ from another only by case or blanks'
            ' are part of the populations.',
    'note': 'Trusted: simulated devices (zone/tile semantics as in '
            'bvf/simnet.py). The web path writes into a scratch script '
            'directory under /verif/.work and is executed through '
            'WebApp.queue_script with a wall-clock watchdog whose firing is '
            'inconclusive, never a violation.',
}
LEVEL = 'exploration'
SHARDS = {'quick': 16, 'thorough': 16}
N = {'quick': 1000, 'thorough': 50000}
TIMEOUT = {'quick': 900, 'thorough': 10800}
RULE = ('one case = one population + captured state + perturbation, through '
        'one of the two capture paths; non-trivial = at least one device; '
        'distinct = distinct (population, state).')
ASSUMPTIONS = [
    'set_zone_color(start, end) colours [start, end)',
    'names contain no double quote and no line break',
    'power of multizone and matrix lights is not part of the captured state',
]

NAME_PARTS = ['Top', 'Chair Side', 'a.b', "it's", 'Desk #1', '{x}', '[1]',
              'back\\', 'a\\b', 'ünï', 'Ω', '  two  spaces', '100%', 'set',
              'end', 'begin', '8:00', '# not a comment', '-', '{', '[', 'not',
              '(z)', 'x;y', 'tab\there', 'Lamp', 'Strip', 'Candle',
              # control characters that are not line breaks
              'form\x0cfeed', 'v\x0btab', 'fs\x1cgs\x1drs\x1eus\x1f', 'bell\x07',
              'nbsp\xa0x', 'zero\u200bwidth',
              # names that are nothing but white space
              ' ', '   ', '\t ', '\xa0', ' \t\xa0 ']


def random_name(rng, used):
    for _ in range(50):
        n = rng.choice(NAME_PARTS)
        if rng.random() < 0.4:
            n = n + rng.choice([' ', '_', '']) + rng.choice(NAME_PARTS)
        if rng.random() < 0.2:
            n = ''.join(chr(rng.choice([rng.randint(33, 126), 0xe9, 0x4e2d]))
                        for _ in range(rng.randint(1, 8)))
        if rng.random() < 0.08:
            # a name made of digits: the same characters also occur as
            # numbers in the captured script
            n = rng.choice(['0', '1', '2', '3', '12', '100', '65535', '2700'])
        if used and rng.random() < 0.12:
            # differs from a name already taken only in case, in a blank at
            # either end or in the form of one letter: another light
            base = rng.choice(sorted(used))
            n = rng.choice([base.upper(), base.lower(), base.swapcase(),
                            base + ' ', ' ' + base, base.replace('ss', 'ß'),
                            base.capitalize()])
        n = n.replace('"', '').strip('\n\r')
        if n and n not in used and '\n' not in n:
            used.add(n)
            return n
    raise RuntimeError('no name')


def comp(rng):
    r = rng.random()
    if r < 0.15:
        return rng.choice([0, 1, 65534, 65535, 32768])
    return rng.randrange(65536)


def colour(rng):
    return [comp(rng), comp(rng), comp(rng), comp(rng)]


def population(rng):
    used = set()
    descs = []
    for _ in range(rng.randint(1, 8)):
        d = {'label': random_name(rng, used), 'group': rng.choice(['G', 'H']),
             'location': 'P', 'kind': rng.choice(['plain', 'plain', 'mz',
                                                  'matrix'])}
        if d['kind'] == 'mz':
            d['zones'] = rng.choice([1, 2, 8, 16, 40, 82, rng.randint(1, 82)])
        if d['kind'] == 'matrix':
            while True:
                h, w = rng.randint(1, 11), rng.randint(1, 8)
                if h * w <= 64:
                    break
            d['height'], d['width'] = h, w
        descs.append(d)
    return descs


def randomise(rng, devices):
    """independent random colours, or -- as real lights usually are -- runs of
    equal colours from a small palette shared by all lights of the population"""
    palette = [colour(rng) for _ in range(rng.randint(1, 4))]
    for dev in devices:
        dev.color = colour(rng) if rng.random() < 0.6 else list(
            rng.choice(palette))
        dev.power = rng.choice([0, 65535])
        for attr in ('zones', 'cells'):
            cur = getattr(dev, attr)
            if rng.random() < 0.5:
                new = [colour(rng) for _ in cur]
            else:
                new, c = [], rng.choice(palette)
                p_switch = rng.choice([0.0, 0.1, 0.3, 0.6])
                for _ in cur:
                    if rng.random() < p_switch:
                        c = rng.choice(palette)
                    new.append(list(c))
            setattr(dev, attr, new)


def captured_state(devices):
    out = {}
    for dev in devices:
        if dev.kind == 'plain':
            out[dev.label] = ('plain', list(dev.color), dev.power)
        elif dev.kind == 'mz':
            out[dev.label] = ('mz', [list(z) for z in dev.zones])
        else:
            out[dev.label] = ('matrix', [list(c) for c in dev.cells])
    return out


def compare(ctx, devices, want, replay, script):
    for dev in devices:
        w = want[dev.label]
        if w[0] == 'plain':
            if dev.color != w[1]:
                ctx.violation('restore:plain-colour',
                              '{!r}: captured {} restored {} | {}'.format(
                                  dev.label, w[1], dev.color, script[:160]),
                              replay)
                return False
            if dev.power != w[2]:
                ctx.violation('restore:plain-power',
                              '{!r}: captured power {} restored {}'.format(
                                  dev.label, w[2], dev.power), replay)
                return False
        elif w[0] == 'mz':
            got = [list(z) for z in dev.zones]
            if got != w[1]:
                k = next(i for i, (a, b) in enumerate(zip(got, w[1])) if a != b)
                ctx.violation('restore:zone',
                              '{!r} zone {}: captured {} restored {} | {}'
                              .format(dev.label, k, w[1][k], got[k],
                                      script[:160]), replay)
                return False
        else:
            got = [list(c) for c in dev.cells]
            if got != w[1]:
                k = next(i for i, (a, b) in enumerate(zip(got, w[1])) if a != b)
                ctx.violation('restore:cell',
                              '{!r} cell {}: captured {} restored {} | {}'
                              .format(dev.label, k, w[1][k], got[k],
                                      script[:160]), replay)
                return False
        ctx.count('devices_restored')
    return True


REUSED = [None]


def case_lscap(ctx, rng, descs):
    devices = simnet.make_devices(descs)
    randomise(rng, devices)
    env.configure(devices)
    want = captured_state(devices)
    replay = {'path': 'lscap', 'population': descs, 'state': want}
    try:
        script = ScriptSnapshot().generate(None).text
    except Exception as ex:
        ctx.violation('capture:raised:' + type(ex).__name__, repr(ex), replay)
        return
    replay['script'] = script
    randomise(rng, devices)
    env.reset_monitors()
    job = ScriptJob.from_string(script)
    if job.program is None:
        ctx.violation('capture:does-not-compile', '{} | {!r}'.format(
            job.compile_errors.strip(), script[:300]), replay)
        return
    job.execute()
    if env.MACHINE_STOPS:
        ctx.violation('replay:abort', '{} | {!r}'.format(
            env.MACHINE_STOPS[0][:3], script[:200]), replay)
        return
    if not compare(ctx, devices, want, replay, script):
        return
    ctx.count('roundtrips_lscap')
    # "run later ... in any other state": the lights are changed again behind
    # the controller's back (or through a broadcast) and the same script is
    # replayed once more by a new job on the same light directory
    for again in range(rng.choice([0, 1, 1, 2])):
        randomise(rng, devices)
        if rng.random() < 0.4:
            ScriptJob.from_string(
                'hue 77 saturation 10 brightness 20 kelvin 3000 set all '
                + rng.choice(['on all', 'off all', ''])).execute()
        env.reset_monitors()
        r = rng.random()
        if r < 0.4:
            job2 = job
        elif r < 0.7:
            job2 = ScriptJob.from_string(script)
        else:
            # one long-lived job object that gets every snapshot of this
            # shard loaded into it, as a front end keeping its job might
            if REUSED[0] is None:
                REUSED[0] = ScriptJob()
            job2 = REUSED[0]
            job2.load_string(script)
            if job2.program is None:
                ctx.violation('capture:does-not-compile', 'on a job that had '
                              'replayed other snapshots: {} | {!r}'.format(
                                  job2.compile_errors.strip(), script[:300]),
                              replay)
                REUSED[0] = ScriptJob()
                return
            ctx.count('replays_on_reloaded_job')
        job2.execute()
        replay['replays'] = again + 2
        if env.MACHINE_STOPS:
            ctx.violation('replay:abort', 'replay #{}: {} | {!r}'.format(
                again + 2, env.MACHINE_STOPS[0][:3], script[:200]), replay)
            return
        if not compare(ctx, devices, want, replay, script):
            return
        ctx.count('repeated_replays')


def case_web(ctx, rng, descs, workdir):
    sys.path.insert(0, env.REPO) if env.REPO not in sys.path else None
    from web import web_app as web_app_mod
    devices = simnet.make_devices(descs)
    randomise(rng, devices)
    env.configure(devices, overrides={'manifest_file_name': None,
                                      'script_path': workdir})
    want = captured_state(devices)
    replay = {'path': 'web', 'population': descs, 'state': want}
    app = web_app_mod.WebApp()
    try:
        app.snapshot()
    except Exception as ex:
        ctx.violation('web-capture:raised:' + type(ex).__name__, repr(ex),
                      replay)
        return
    path = os.path.join(workdir, '__snapshot__.ls')
    try:
        script = open(path).read()
    except OSError as ex:
        ctx.violation('web-capture:no-file', repr(ex), replay)
        return
    replay['script'] = script
    randomise(rng, devices)
    env.reset_monitors()
    sc = web_app_mod.ScriptControl('__snapshot__.ls', False, 'snap',
                                   'snapshot', '', '')
    app.queue_script(sc)
    t0 = time.time()
    while app._jobs.has_jobs():
        if time.time() - t0 > 20:
            ctx.set_inconclusive('web replay did not finish within 20 s')
            return
        time.sleep(0.002)
    if env.MACHINE_STOPS or env.THREAD_EXCEPTIONS:
        ctx.violation('web-replay:abort', '{} {}'.format(
            env.MACHINE_STOPS[:1], env.THREAD_EXCEPTIONS[:1]), replay)
        return
    if compare(ctx, devices, want, replay, script):
        ctx.count('roundtrips_web')


def run_shard(ctx):
    n = N[ctx.tier]
    workdir = os.path.join(env.VERIF, '.work', 'c18-{}-{}'.format(
        os.getpid(), ctx.shard))
    os.makedirs(workdir, exist_ok=True)
    try:
        for i in range(ctx.shard, n, ctx.nshards):
            rng = ctx.rng('c18', i)
            descs = population(rng)
            ctx.case('R:{}:{}'.format(i, [d['label'] for d in descs]))
            if (i // ctx.nshards) % 4 == 3:
                case_web(ctx, rng, descs, workdir)
            else:
                case_lscap(ctx, rng, descs)
            if i % 250 < ctx.nshards:
                ctx.sample({'population': [
                    (d['label'], d['kind'], d.get('zones') or
                     (d.get('height'), d.get('width'))) for d in descs]})
    finally:
        shutil.rmtree(workdir, ignore_errors=True)


def finalize(merged):
    c = merged['counters']
    for need in ('roundtrips_lscap', 'roundtrips_web', 'devices_restored'):
        if not c.get(need) and not merged['violations']:
            merged['inconclusive'].append('monitor observed nothing: ' + need)


def replay(doc):
    r = doc['replay']
    print(r.get('script', '')[:2000])
    print('captured state:', {k: v[0] for k, v in r['state'].items()})
    return 0
