"""C10 -- delays run on one time line from script start; time-of-day waits
restart it.

The production Clock, Machine, ScriptJob and JobControl run under the
controlled scheduler on virtual time (bvf/sched.py, bvf/vsys.py): the clock
thread's sleep, the event the script waits on, time.time() and
datetime.now() are scheduler shims, so "how much work happens between two
delays" and "which of clock thread and script thread moves next" are seeded
scheduling choices.  A probe on the machine's Clock instance records the
virtual instants of pause_for / wait_until / reset calls and, at every tick,
the set of threads waiting on the event.  Rules (logical events only):
  T0  the time line is started (reset) when the script starts, before its
      first instruction, not when the first delay is met
  T1  pause_for k returns (not stopped) at virtual time < due_k, where
      due_k = origin + d_1 + ... + d_k and origin = instant of the last reset
  T2  a tick at virtual time >= due_k found the script thread waiting, and
      the script thread waits again inside the same pause_for
  T3  pause_for entered at virtual time >= due_k and the script waits on the
      event (behind schedule must return at once)
  T4  wait_until returns at a minute its pattern does not match, or without
      restarting the time line at that moment, or waits again after a tick
      inside a matching minute found it waiting
  T5  the sequence of delay requests differs from the script's: `time 0`
      requests nothing, raw units request time/1000
"""
from bvf import env, sched, vsys
from bvf.harness import sig
from bardolph.controller.script_job import ScriptJob
from bardolph.lib import job_control

ID = 'C10'
MANIFEST = {
    'category': 'exploration',
    'technique': 'online trace rules (due-time automaton T1-T5) over the '
                 'clock calls and tick/waiter events of the real Clock under '
                 'a controlled scheduler with virtual time',
    'text': 'Delay sequences over {0, 0.001, 0.05, 0.1, 0.35, 2, 3600} and '
            'random reals, tick lengths 0.01 / 0.1 / 1 s, time-of-day waits at '
            'every position and units raw scaling are run on the production '
            'clock under seeded random-walk and PCT schedules; the amount of '
            'virtual time that passes while the script thread is runnable (the '
            '"work" between delays) is itself a scheduling choice. Sampled '
            'schedules, not enumeration.'
            ' Scripts without positive delays also run under a tick lengt'
            'h of zero (the clock thread lives and ticks).',
    'note': 'Trusted: scheduler shims and virtual clock. "Within one tick" is '
            'rule T2; wall-clock time never decides. A thread held up by the '
            'scheduler is not a violation (only the rules above are).',
}
LEVEL = 'exploration'
SHARDS = {'quick': 16, 'thorough': 16}
N = {'quick': 2000, 'thorough': 150000}
TIMEOUT = {'quick': 900, 'thorough': 14400}
RULE = ('one case = one script of 1-6 timed statements (optionally one '
        'time-of-day wait, raw units) under one seeded schedule and tick '
        'length; non-trivial = at least one positive delay was waited for; '
        'distinct = distinct sequences of scheduling choices.')
ASSUMPTIONS = [
    'virtual time advances only at scheduler ticks (next wake-up of a sleeper)',
    'the virtual day starts at 00:16:40; time-of-day patterns are chosen '
    'within a few minutes of it and use a 1 s tick',
]
DELAYS = [0, 0, 0.001, 0.05, 0.1, 0.35, 0.35, 2, 2, 3600]
DEVICES = [dict(label='A', group='G', location='P')]


START = [1000.0]        # virtual second of the day at which a scenario begins


def gen_case(rng):
    tick = rng.choice([0.01, 0.1, 0.1, 1])
    use_tod = rng.random() < 0.25
    START[0] = 1000.0
    if use_tod:
        tick = 1
        if rng.random() < 0.4:
            # shortly before the full hour: hour and minute change together
            START[0] = 3540.0 + rng.randint(0, 45)
    raw = rng.random() < 0.2
    stmts = []
    expected = []        # ('pf', seconds) | ('wu', pattern)
    if raw:
        stmts.append('units raw')
    n = rng.randint(1, 6)
    tod_at = rng.randrange(n) if use_tod else None
    horizon = 0.0
    current = 0            # the value the time register holds (None: pattern)
    mode = 'raw' if raw else 'logical'
    for k in range(n):
        if k and rng.random() < 0.2:
            # the time in force is carried through a unit switch: the same
            # span of time, re-expressed (seconds in logical and rgb units,
            # milliseconds in raw units)
            mode = rng.choice([m for m in ('logical', 'raw', 'rgb')
                               if m != mode])
            stmts.append('units ' + mode)
            raw = mode == 'raw'
        if k == tod_at:
            pat = rng.choice(['0:17', '0:18', '0:1*', '*:*8', '0:2*', '*:19'])
            if START[0] > 3000:
                pat = rng.choice(['1:00', '1:0*', '*:00', '0:00 or 1:02',
                                  '1:01', '2:00 or 1:01', '0:01 or 1:03',
                                  '*:*1', '1:*', '0:0* or 1:02'])
            stmts.append('time at {} on all'.format(pat))
            expected.append(('wu', pat))
            current = None
            if rng.random() < 0.4:
                # the pattern stays in force: the next command waits for it
                # as well, and the minute that ended the first wait ends this
                # one too
                stmts.append(rng.choice(['off "A"', 'on all', 'wait']))
                expected.append(('wu', pat))
            continue
        if current is not None and k and rng.random() < 0.35:
            # the register keeps its value: the same delay again
            stmts.append(rng.choice(['on all', 'wait', 'off "A"', 'set "A"']))
            if current > 0:
                expected.append(('pf', current))
            horizon += current
            continue
        d = rng.choice(DELAYS) if rng.random() < 0.8 else round(
            rng.uniform(0, 3), rng.choice([1, 2, 3]))
        if tick == 0.01 and d > 1:
            d = 0.35             # keeps the number of ticks bounded
        if d == 3600 and (tick != 1 or rng.random() < 0.95):
            d = 60 if tick == 1 else 2
        horizon += d
        from bvf.oracle import lit
        stmts.append('time {} {}'.format(lit(d * 1000 if raw else d),
                                         rng.choice(['on all', 'wait',
                                                     'off "A"', 'set "A"'])))
        current = d
        if d > 0:
            expected.append(('pf', d))
        # some extra statements = more "work" in front of the next delay
        for _ in range(rng.choice([0, 0, 1, 3])):
            stmts.append('hue {}'.format(rng.randint(0, 360)))
    return ' '.join(stmts), expected, tick


COMPANIONS = ['time 0.07 repeat 6 begin on "A" end',
              'time 0.3 wait wait time 0.01 repeat 4 wait',
              'repeat 3 begin time 0.2 wait end print 1']


def run_case(seed, script, tick, policy, depth, max_steps=200000, runs=1,
             tick_as_text=False, companion=None, start=1000.0):
    env.THREAD_EXCEPTIONS.clear()
    env.MACHINE_STOPS.clear()
    events = []
    s = sched.begin(seed, policy=policy, depth=depth, max_steps=max_steps,
                    start=start)
    outcome = {'deadlock': None}
    try:
        vsys.configure(DEVICES, tick, tick_as_text=tick_as_text)
        job = ScriptJob.from_string(script)
        assert job.program is not None, job.compile_errors
        vsys.ClockProbe(job._machine._clock, events)
        execute = job.execute

        first = {'pending': False}

        def probed_execute():
            events.append(('run_start', s.vnow))
            first['pending'] = True
            return execute()
        job.execute = probed_execute
        # the first instruction of every run, as an event: by then the time
        # line has to be running (T0)
        table = job._machine._fn_table

        def stepped(fn):
            def step():
                if first['pending']:
                    first['pending'] = False
                    events.append(('first_instruction', s.vnow))
                fn()
            return step
        for op in list(table):
            table[op] = stepped(table[op])
        jc = job_control.JobControl()
        if companion is not None:
            # another script with its own delays, running alongside as a
            # background job: every machine keeps its own time line -- also
            # when the other job is stopped or comes to its end
            jc.spawn_job(ScriptJob.from_string(COMPANIONS[companion]), 'bg')
            if seed % 3 == 0:
                def stopper():
                    for _ in range(seed % 97 + 5):
                        s.switch('stopper')
                    jc.stop_job('bg')
                sched.ShimThread(target=stopper, name='stopper').start()
        for _ in range(runs):
            # (a further run of the same job object starts the moment the
            # previous one has ended: its clock thread may still be around)
            agent = jc.add_job(job)
            s.block_until(lambda: not agent.is_running() or s.deadlock, 'job')
        # let the clock thread notice the stop and exit
        s.block_until(lambda: all(t.done for t in s.order if t is not s.main),
                      'threads', timeout=5 * tick + 10)
    except (sched.Deadlock, sched.Livelock) as ex:
        outcome['deadlock'] = str(ex)
    finally:
        sched.end()
    outcome.update(events=events, schedule=list(s.choices), steps=s.steps,
                   stops=list(env.MACHINE_STOPS),
                   thread_exc=list(env.THREAD_EXCEPTIONS),
                   locations=dict(s.locations))
    return outcome


def first_match_after(table, t):
    """virtual instant of the start of the first matching minute at/after t"""
    from bvf.sched import VDatetime
    import datetime as dt
    now = VDatetime.base + dt.timedelta(seconds=t)
    for k in range(0, 24 * 60 + 1):
        cand = now.replace(second=0, microsecond=0) + dt.timedelta(minutes=k)
        if cand.hour * 60 + cand.minute in table:
            start = (cand - VDatetime.base).total_seconds()
            return max(start, t)
    return None


def check_rules(ctx, out, expected, replay, script):
    ev = out['events']
    if out['deadlock'] and out['deadlock'].startswith('LIVE'):
        # step budget exhausted: the scheduler starved the script (a legal
        # but unproductive schedule); no verdict from this scenario
        ctx.count('scenarios_budget_exhausted')
        return None
    if out['deadlock']:
        ctx.violation('deadlock', out['deadlock'][:300] + ' | ' + script,
                      replay)
        return False
    if out['stops'] or out['thread_exc']:
        ctx.violation('abort', '{} {} | {}'.format(
            out['stops'][:1], out['thread_exc'][:1], script), replay)
        return False
    # T5: the requests themselves
    got = []
    for e in ev:
        if e[0] == 'pf_enter':
            got.append(('pf', e[2]))
        elif e[0] == 'wu_enter':
            got.append(('wu', None))
    want = [(k, (v if k == 'pf' else None)) for k, v in expected]
    if len(got) != len(want) or any(
            g[0] != w[0] or (g[0] == 'pf' and abs(g[1] - w[1]) > 1e-9)
            for g, w in zip(got, want)):
        ctx.violation('T5:requests', 'clock requests {} expected {} | {}'
                      .format(got, want, script), replay)
        return False
    origin = None
    due = None
    in_pf = None          # dict while inside pause_for
    in_wu = None
    waited = False
    for e in ev:
        kind, t = e[0], e[1]
        if kind == 'run_start':
            # every run has its own time line: nothing is due before the
            # clock has been started again
            origin = due = None
        elif kind == 'first_instruction':
            if origin is None:
                ctx.violation('T0:time-line-not-started-with-the-script',
                              'the first instruction runs at {:.4f} and the '
                              'clock has not been started: work done before '
                              'the first delay would not count | {}'.format(
                                  t, script), replay)
                return False
        elif kind == 'reset':
            origin = t
            due = t
            if in_wu is not None:
                in_wu['reset_at'] = t
        elif kind == 'pf_enter':
            if due is None:
                ctx.violation('T1:no-origin', 'delay before the clock was '
                              'started | ' + script, replay)
                return False
            due = due + e[2]
            # (ties between a tick and a due time are decided by floating
            # point noise: no verdict within 1e-6 s of the boundary)
            in_pf = {'late': t >= due + 1e-6, 'qualified': False,
                     'entered': t}
            ctx.count('delays')
            if in_pf['late']:
                ctx.count('delays_entered_behind_schedule')
        elif kind == 'pf_exit':
            not_stopped = e[3]
            if not_stopped and t < due - 1e-6:
                ctx.violation('T1:early', 'delay #{} ended at {:.4f}, due '
                              '{:.4f} (origin {:.4f}) | {}'.format(
                                  ctx.counters.get('delays', 0), t, due,
                                  origin, script), replay)
                return False
            if t > in_pf['entered']:
                waited = True
            in_pf = None
        elif kind == 'fire':
            if in_pf is not None and t >= due + 1e-6 and \
                    vsys.SCRIPT_THREAD in e[2]:
                in_pf['qualified'] = True
        elif kind == 'wait' and e[2] == vsys.SCRIPT_THREAD:
            if in_pf is not None:
                if in_pf['qualified']:
                    ctx.violation('T2:missed-tick', 'the script waits again at '
                                  '{:.4f} although a tick at/after the due time '
                                  '{:.4f} found it waiting | {}'.format(
                                      t, due, script), replay)
                    return False
                if in_pf['late']:
                    ctx.violation('T3:waits-although-late', 'delay entered at '
                                  '{:.4f} >= due {:.4f} but the script waits '
                                  'for a tick | {}'.format(
                                      in_pf['entered'], due, script), replay)
                    return False
            if in_wu is not None:
                if not in_wu.get('queried'):
                    ctx.violation('T4:waits-without-consulting-the-pattern',
                                  'at {:.2f} the time-of-day wait goes (back) '
                                  'to sleep without having checked the current '
                                  'minute against its pattern | {}'.format(
                                      t, script), replay)
                    return False
                in_wu['queried'] = False
                in_wu['waits_after_check'] = True
                in_wu['seen_at'] = t
                if in_wu.get('matched'):
                    ctx.violation('T4:missed-minute', 'the script waits again '
                                  'at {:.2f} after its check found a matching '
                                  'minute | {}'.format(t, script), replay)
                    return False
        elif kind == 'match' and in_wu is not None:
            ctx.count('time_of_day_checks')
            # the time is read in one statement and checked in the next; any
            # minute between the last moment the script was seen waiting (or
            # entering) and now is a legitimate reading
            lo = vsys.minute_of(in_wu.get('seen_at', in_wu['entered']))
            hi = vsys.minute_of(t)
            span = [(lo + k) % 1440 for k in range(((hi - lo) % 1440) + 1)]
            if e[2] not in span:
                ctx.violation('T4:stale-time', 'at {:.2f} (minute {}) the wait '
                              'checked its pattern against minute {} | {}'
                              .format(t, hi, e[2], script), replay)
                return False
            if e[3] != (e[2] in in_wu['table']):
                ctx.violation('T4:pattern-changed', 'check of minute {} gave '
                              '{} | {}'.format(e[2], e[3], script), replay)
                return False
            in_wu['queried'] = True
            in_wu['matched'] = e[3]
            in_wu['matched_at'] = t
            in_wu['waits_after_check'] = False
            in_wu['reset_at'] = None
        elif kind == 'wu_enter':
            in_wu = {'table': e[2], 'entered': t}
            ctx.count('time_of_day_waits')
        elif kind == 'wu_exit':
            minute, not_stopped = e[2], e[3]
            if not_stopped:
                if not in_wu.get('matched'):
                    ctx.violation('T4:returned-without-match', 'time-of-day '
                                  'wait ended at minute {} without a check that '
                                  'matched | {}'.format(minute, script), replay)
                    return False
                if in_wu.get('reset_at') is None:
                    ctx.violation('T4:no-restart', 'the time line was not '
                                  'restarted after the awaited time was seen '
                                  '(check at {}, return at {}) | {}'.format(
                                      in_wu.get('matched_at'), t, script),
                                  replay)
                    return False
                waited = True
            in_wu = None
    out['waited'] = waited
    return True


def part_tick_zero(ctx):
    """a tick length of zero (the clock thread does not sleep between ticks)
    is a tick length like any other: the clock thread lives, ticks, and "a
    zero delay never blocks".  Scripts without positive delays only -- with a
    tick of zero virtual time has nothing to advance by."""
    rng = ctx.rng('tick0', ctx.shard)
    for k in range(3 if ctx.tier == 'quick' else 40):
        script = ' '.join(rng.choice([
            'on all', 'off "A"', 'time 0 set all', 'time 0', 'hue 5 set "A"',
            'units raw time 0 on all units logical', 'duration 1 set all'])
            for _ in range(rng.randint(1, 5)))
        tick = rng.choice([0, 0.0])
        as_text = rng.random() < 0.3
        seed = ctx.seed * 7919 + ctx.shard * 101 + k
        out = run_case(seed, script, tick, 'random', 1, 80000, 1, as_text)
        replay = {'script': script, 'tick': tick, 'policy': 'random',
                  'depth': 1, 'seed': seed, 'tick_as_text': as_text}
        ctx.case('Z:{}:{}'.format(script, out.get('schedule', [])[:40]))
        fires = sum(1 for e in out['events'] if e[0] == 'fire')
        if out['deadlock'] or out['thread_exc'] or out['stops']:
            ctx.violation('tick-0:thread-died-or-stuck', '{} {} {} | {}'.format(
                str(out['deadlock'])[:120], out['thread_exc'][:1],
                out['stops'][:1], script), replay)
        elif not fires:
            ctx.violation('tick-0:clock-never-ticked',
                          'no tick was observed | ' + script, replay)
        else:
            ctx.count('tick_zero_scenarios')
            ctx.count('tick_zero_ticks', fires)


def run_shard(ctx):
    n = N[ctx.tier]
    locs = {}
    part_tick_zero(ctx)
    for i in range(ctx.shard, n, ctx.nshards):
        rng = ctx.rng('c10', i)
        script, expected, tick = gen_case(rng)
        policy = rng.choice(['random', 'random', 'pct'])
        depth = rng.choice([1, 2, 3])
        seed = ctx.seed * 1000003 + i
        horizon = sum(v for k, v in expected if k == 'pf') + (
            300 if any(k == 'wu' for k, _ in expected) else 0)
        budget = int(horizon / tick * 120) + 60000
        runs = 1
        if not any(k == 'wu' for k, _ in expected) and rng.random() < 0.25:
            runs = rng.choice([2, 2, 3])
            expected = expected * runs
            budget *= runs
            ctx.count('scenarios_with_reruns')
        tick_as_text = rng.random() < 0.3
        companion = rng.randrange(len(COMPANIONS)) \
            if rng.random() < 0.25 and tick >= 0.1 else None
        if companion is not None:
            budget += 40000
            ctx.count('scenarios_with_companion_job')
        if tick_as_text:
            ctx.count('scenarios_with_tick_given_as_text')
        start = START[0]
        if start > 3000:
            ctx.count('scenarios_across_the_full_hour')
        out = run_case(seed, script, tick, policy, depth, budget, runs,
                       tick_as_text, companion, start)
        replay = {'script': script, 'tick': tick, 'policy': policy,
                  'depth': depth, 'seed': seed, 'expected': expected,
                  'runs': runs, 'tick_as_text': tick_as_text,
                  'companion': companion, 'start': start}
        ok = check_rules(ctx, out, expected, replay, script)
        ctx.case(sig(out['schedule']), nontrivial=bool(out.get('waited')))
        ctx.count('scheduler_steps', out['steps'])
        ctx.count('tick:{}'.format(tick))
        for k, v in out['locations'].items():
            locs[k.split(':')[0]] = locs.get(k.split(':')[0], 0) + v
        if ok:
            ctx.count('scenarios_ok')
        ctx.count('scenarios')
        if i % 500 < ctx.nshards:
            ctx.sample({'script': script, 'tick': tick, 'policy': policy,
                        'events': [str(e)[:80] for e in out['events'][:12]]})
    ctx.extra['yield_functions'] = locs


def finalize(merged):
    c = merged['counters']
    locs = {}
    for d in merged['extra'].get('yield_functions', []):
        for k, v in d.items():
            locs[k] = locs.get(k, 0) + v
    merged['coverage_extra'] = {
        'yield_points_by_function': dict(sorted(locs.items(),
                                                key=lambda kv: -kv[1])[:20]),
        'delays_observed': c.get('delays', 0),
        'delays_entered_behind_schedule':
            c.get('delays_entered_behind_schedule', 0),
        'time_of_day_waits': c.get('time_of_day_waits', 0)}
    if c.get('scenarios_budget_exhausted', 0) > 0.1 * c.get('scenarios', 1):
        merged['inconclusive'].append(
            '{} of {} scenarios ran out of scheduling steps'.format(
                c.get('scenarios_budget_exhausted'), c.get('scenarios')))
    for need in ('delays', 'delays_entered_behind_schedule',
                 'time_of_day_waits', 'scenarios_ok'):
        if not c.get(need) and not merged['violations']:
            merged['inconclusive'].append('monitor observed nothing: ' + need)


def replay(doc):
    from bvf.harness import Ctx
    r = doc['replay']
    ctx = Ctx('C10', 'quick', 0, 0, 1)
    out = run_case(r['seed'], r['script'], r['tick'], r['policy'], r['depth'],
                   2000000, r.get('runs', 1), r.get('tick_as_text', False),
                   r.get('companion'), r.get('start', 1000.0))
    for e in out['events'][:200]:
        print(e)
    check_rules(ctx, out, [tuple(x) for x in r['expected']], r, r['script'])
    for v in ctx.violations:
        print('VIOLATION property=C10', v['mech'], v['what'])
    return 1 if ctx.violations else 0
