"""C07 -- transmitted colours and durations are in protocol range and exact.

Every value is pushed through the real compiler and VM as a generated script;
the monitor sits at the simulated device boundary (bvf.simnet), where
  R  the always-on range/type monitor checks every argument, and
  N  the numeric oracle (bvf.oracle, exact rational arithmetic) compares every
     transmitted component with the ideal conversion of the register contents.
Sweeps:
  X1 all 65536 raw values of every component: device state -> `get` in logical
     units -> `set` -> must be the same raw colour (hue 0 == 65535);
  X2 raw -> rgb registers -> raw on random triples (compared within one unit,
     hue ignored when saturation or brightness is 0);
  G  grids over and beyond the valid ranges, in each unit mode, through every
     command kind that transmits a colour or a duration.
"""
from fractions import Fraction as F

from bvf import env, oracle, simnet
from bvf.oracle import lit
from bvf.runner import run_script
from bardolph.controller.script_job import ScriptJob

ID = 'C07'
MANIFEST = {
    'category': 'exploration',
    'technique': 'protocol range monitor + exact-rational conversion oracle at '
                 'the simulated device boundary, exhaustive raw sweeps',
    'text': 'All 65536 raw values per component are round-tripped through the '
            'real VM (exhaustive); logical/raw/rgb values on fine grids over and '
            'beyond the valid ranges are sent through every command kind '
            '(light, group, location, all, zone, matrix cell inline and staged, '
            'power on/off for light/group/location/all) and every transmitted '
            'argument is compared with an exact rational oracle (tolerance half '
            'a raw unit); scripts of 2-6 settings under changing unit modes with '
            'recurring numbers are checked command by command. Grids are sampled, not all register combinations.'
            ' The delay requested from the clock before a command is chec'
            'ked as well: non-negative, equal to the stated span in every'
            ' unit mode, literal, braced, negated or carried through a un'
            'it switch.',
    'note': 'Trusted: the rational oracle (bvf/oracle.py) and the simulated '
            'lifxlan devices; set_zone_color(start,end) is taken as [start,end).',
}
LEVEL = 'exploration'
SHARDS = {'quick': 16, 'thorough': 16}
RULE = ('X1: enumeration of all 65536 raw values (same value in hue, saturation '
        'and brightness, kelvin varied) through `get`/`set` in logical units; '
        'X2: seeded random raw triples through rgb units; G: per unit mode a '
        'grid tuple (c0,c1,c2,kelvin,duration) is one case = one script of 11 '
        'commands / 17 device requests. Non-trivial: every case transmits at '
        'least one colour; distinct = distinct value tuples.')
ASSUMPTIONS = [
    'hue 65535 and 0 denote the same angle',
    'exact .5 ties may round either way',
    'kelvin and raw values outside 0..65535 / non-integers only need to be '
    'transmitted as the nearest in-range integer',
    'set_zone_color(start, end) colours [start, end)',
]

DEVICES = [
    dict(label='A', group='G1', location='P1'),
    dict(label='B', group='G1', location='P1'),
    dict(label='Z', group='G2', location='P1', kind='mz', zones=8),
    dict(label='M', group='G2', location='P2', kind='matrix', height=3, width=2),
]

BODY = ('set "A" set group "G1" set location "P2" set all '
        'set "Z" zone 1 2 set "M" row 0 column 1 '
        'set "M" begin stage row 1 end '
        'on "A" off group "G1" on location "P1" off all')
N_EVENTS = 1 + 2 + 1 + 1 + 1 + 1 + 1 + 1 + 2 + 3 + 1
REG3 = {'logical': ('hue', 'saturation', 'brightness'),
        'raw': ('hue', 'saturation', 'brightness'),
        'rgb': ('red', 'green', 'blue')}


def script_for(mode, c0, c1, c2, k, d):
    a, b, c = REG3[mode]
    return 'units {} {} {} {} {} {} {} kelvin {} duration {} {}'.format(
        mode, a, lit(c0), b, lit(c1), c, lit(c2), lit(k), lit(d), BODY)


def check_run(ctx, mode, vals, r, replay):
    c0, c1, c2, k, d = vals
    if not r.accepted:
        ctx.violation('grid:rejected', 'script rejected: ' + r.errors, replay)
        return
    if r.stops:
        ctx.violation('grid:vm-abort:' + str(r.stops[0][1]),
                      'script aborted: {}'.format(r.stops[0][:3]), replay)
        return
    for rv in r.range:
        ctx.violation('range:' + rv[0].split('.')[-1] + ':' + rv[1],
                      'out-of-protocol argument {} at {} (registers {} {})'
                      .format(rv[2], rv[0], mode, vals), replay)
    ideal = oracle.ideal_color(mode, c0, c1, c2, k)
    idur = oracle.ideal_duration(mode, d)
    hue_free = mode == 'rgb' and (ideal[1] <= 1 or ideal[2] <= 1)
    evs = r.dev_events()
    if len(evs) != N_EVENTS:
        ctx.violation('grid:event-count', 'expected {} device requests, saw {}'
                      .format(N_EVENTS, len(evs)), replay)
        return
    check_events(ctx, mode, vals, evs, replay)


def check_events(ctx, mode, vals, evs, replay, tag=''):
    c0, c1, c2, k, d = vals
    ideal = oracle.ideal_color(mode, c0, c1, c2, k)
    idur = oracle.ideal_duration(mode, d)
    hue_free = mode == 'rgb' and (ideal[1] <= 1 or ideal[2] <= 1)
    for e in evs:
        meth = e[2] if e[0] == 'dev' else e[1]
        args = e[3] if e[0] == 'dev' else e[2]
        who = e[1] if e[0] == 'dev' else 'all'
        colors, dur = [], None
        if meth in ('set_color', 'set_color_all_lights'):
            colors, dur = [args[0]], args[1]
        elif meth == 'set_zone_color':
            colors, dur = [args[2]], args[3]
        elif meth == 'SetTileState64':
            cells = args[0]['colors']
            colors = [c for c in cells if c != [0, 0, 0, 0]] or cells[:1]
            if ideal[:3] == [0, 0, 0] and ideal[3] == 0:
                colors = cells[:1]
            dur = args[0]['duration']
        elif meth in ('set_power', 'set_power_all_lights'):
            dur = args[1]
        kind = {'set_color': 'light', 'set_color_all_lights': 'all',
                'set_zone_color': 'zone', 'SetTileState64': 'matrix',
                'set_power': 'power', 'set_power_all_lights': 'power-all'}[meth]
        for col in colors:
            if not (isinstance(col, list) and len(col) == 4
                    and all(type(x) is int for x in col)):
                continue        # already reported by the range monitor
            ctx.count('values_checked', 4)
            msg = oracle.color_ok(col, ideal, hue_free=hue_free)
            if not msg and mode == 'logical' and ideal[0] == 0 and \
                    col[0] > oracle.TOL:
                # a whole number of turns: (degrees mod 360)/360*65535 is
                # exactly 0 and is sent as 0, not as the other name of the
                # same angle (just *below* a full turn the repository snaps to
                # 0 on purpose, so there 0 and 65535 both pass)
                msg = 'hue sent {} for a whole number of turns (ideal 0)' \
                    .format(col[0])
            if msg:
                ctx.violation('numeric:{}:{}{}'.format(kind, mode, tag),
                              '{} {}: {} (registers {})'.format(
                                  who, meth, msg, vals), replay)
        if type(dur) is int:
            ctx.count('values_checked')
            msg = oracle.duration_ok(dur, idur)
            if msg:
                ctx.violation('duration:{}:{}{}'.format(kind, mode, tag),
                              '{} {}: {} (duration register {} in {} units)'
                              .format(who, meth, msg, d, mode), replay)


def grids(ctx, rng):
    thorough = ctx.tier == 'thorough'
    hues = [x * 0.25 for x in range(-2880, 4321)] + \
        [1e-7, -1e-7, 360 - 1e-7, 360 + 1e-7, 359.9999999, 1e15, 1e300,
         -1e300, 123456789.125, 65535, 65536]
    pcts = [x * 0.05 for x in range(-1000, 3001)] + [1e-9, 100 + 1e-9, 1e300]
    durs = [0, 0.0004, 0.0005, 0.0006, 0.001, 0.0015, 0.5, 1, 1.2345, 59.9995,
            3600, 86400.5, 4294967.295, 4294967.2954, 4294967.296, 4294968,
            4.3e6, 1e9, 1e300, -1, -0.0001, -1e300] + \
        [10 ** (e / 4.0) for e in range(-16, 27)]
    kelv = [0, 1, 1500, 2500, 2700, 2700.4, 2700.5, 2700.6, 9000, 65535,
            65535.4, 65536, 70000, -5, 1e300] + list(range(0, 70001, 250))
    n = len(hues) * 6 if thorough else len(hues)
    tuples = []
    for i in range(n):
        j = i
        tuples.append(('logical', hues[j % len(hues)],
                       pcts[(j * 7 + i) % len(pcts)],
                       pcts[(j * 13 + 5 * i + 1) % len(pcts)],
                       kelv[(j + i) % len(kelv)], durs[(j + 3 * i) % len(durs)]))
    raws = [0, 1, 2, 32767, 32768, 65534, 65535, 65536, 70000, -1, 0.4, 0.5,
            0.6, 65534.5, 65535.4, 1e12, -1e12, 1e300]
    n = 120000 if thorough else 4000
    rdur = [0, 1, 999, 1000, 1500, 2 ** 31, 2 ** 32 - 2, 2 ** 32 - 1, 2 ** 32,
            2 ** 40, 0.4, 0.6, -3, 1e300]
    for i in range(n):
        pick = lambda: (rng.choice(raws) if rng.random() < 0.3
                        else rng.randrange(65536))
        tuples.append(('raw', pick(), pick(), pick(), pick(),
                       rng.choice(rdur) if rng.random() < 0.5
                       else rng.randrange(2 ** 32)))
    step = 5
    rgbgrid = [(r, g, b) for r in range(0, 101, step) for g in range(0, 101, step)
               for b in range(0, 101, step)]
    if not thorough:
        rgbgrid = rng.sample(rgbgrid, 4000)
    else:
        rgbgrid = rgbgrid * 4
    for i, (r, g, b) in enumerate(rgbgrid):
        if thorough and i >= 9261:
            r, g, b = [min(100.0, max(0.0, x + rng.uniform(-2.5, 2.5)))
                       for x in (r, g, b)]
        tuples.append(('rgb', r, g, b, kelv[i % len(kelv)],
                       durs[(i * 3) % len(durs)]))
    return tuples


def part_grid(ctx):
    rng = ctx.rng('grid')          # same list in every shard, then split
    tuples = grids(ctx, rng)
    for i, t in enumerate(tuples):
        if not ctx.mine(i):
            continue
        mode, vals = t[0], t[1:]
        text = script_for(mode, *vals)
        r = run_script(text)
        replay = {'part': 'grid', 'mode': mode, 'vals': vals, 'script': text}
        ctx.case('G:' + repr(t))
        ctx.count('grid_' + mode)
        check_run(ctx, mode, vals, r, replay)
        if i % 997 == 0:
            ctx.sample({'part': 'grid', 'script': text[:160] + '...'})


COMMANDS = ['set "A"', 'set group "G1"', 'set location "P2"', 'set all',
            'set "Z" zone 1 2', 'set "M" row 0 column 1',
            'set "M" row 0 2 column 0 1', 'set "M" begin stage row 1 end',
            'set "M" begin stage row 0 1 column 0 1 end', 'on "A"',
            'off group "G1"']
POOL = {'logical': ([0, 50, 100, 120, 240, 300, 359.5, 25, 10, 75],
                    [0, 50, 100, 25, 10, 75, 99.5]),
        'raw': ([0, 50, 100, 120, 240, 300, 25, 10, 75, 32768, 65535],
                [0, 50, 100, 25, 10, 75, 32768, 65535]),
        'rgb': ([0, 50, 100, 25, 10, 75, 99.5], [0, 50, 100, 25, 10, 75, 99.5])}


def part_mixed(ctx):
    """several settings in one script: the same numbers sent under different
    unit modes, repeated, and through different command kinds -- what one
    command transmits must not depend on what an earlier one transmitted"""
    n = 20000 if ctx.tier == 'thorough' else 1200
    for i in range(ctx.shard, n, ctx.nshards):
        rng = ctx.rng('mixed', i)
        segs, parts = [], []
        base = [rng.choice(POOL['rgb'][0]) for _ in range(3)]
        for j in range(rng.randint(2, 6)):
            mode = rng.choice(['logical', 'raw', 'rgb'])
            first, rest = POOL[mode]
            if rng.random() < 0.6:       # the numbers of an earlier segment
                vals3 = list(segs[-1][1][:3]) if segs and rng.random() < 0.5 \
                    else list(base)
            else:
                vals3 = [rng.choice(first), rng.choice(rest), rng.choice(rest)]
            if (mode == 'rgb' and max(vals3) > 100) or (
                    mode == 'logical' and (vals3[0] > 360
                                           or max(vals3[1:]) > 100)):
                vals3 = [rng.choice(first), rng.choice(rest), rng.choice(rest)]
            k = rng.choice([2700, 2700, 3500, 9000])
            d = rng.choice([0, 1, 2, 1500]) if mode == 'raw' else \
                rng.choice([0, 1, 2, 0.5])
            cmd = rng.choice(COMMANDS)
            a, b, c = REG3[mode]
            restate = 'duration {} '.format(lit(d))
            if segs and rng.random() < 0.3:
                # the duration is not set again: the one in force is carried
                # through the unit switch (the same span of time, re-expressed)
                pmode, pd = segs[-1][0], segs[-1][1][4]
                d = pd * 1000 if (mode == 'raw') > (pmode == 'raw') else \
                    F(pd) / 1000 if (mode == 'raw') < (pmode == 'raw') else pd
                restate = ''
                ctx.count('mixed_durations_carried')
            parts.append('units {} {} {} {} {} {} {} kelvin {} {}{} '
                         'print {}'.format(mode, a, lit(vals3[0]), b,
                                           lit(vals3[1]), c, lit(vals3[2]),
                                           lit(k), restate, cmd, j))
            segs.append((mode, tuple(vals3) + (k, d), cmd))
        text = ' '.join(parts)
        reps = 1
        if rng.random() < 0.3 and segs[0][0] == segs[-1][0] or \
                rng.random() < 0.15:
            # the whole sequence twice, as the body of a loop: on the second
            # pass every `units` command finds another mode in force than the
            # one written before it
            reps = 2
            text = rng.choice(['repeat 2 begin {} end',
                               'define zz_seq begin {} end zz_seq zz_seq',
                               'repeat with zz_i from 1 to 2 begin {} end']
                              ).format(text)
            ctx.count('mixed_scripts_repeated')
            if 'duration' not in parts[0]:
                reps = 1      # (cannot happen: the first segment states it)
        r = run_script(text)
        replay = {'part': 'mixed', 'script': text,
                  'segments': [[m, [float(x) for x in v], c]
                               for m, v, c in segs]}
        ctx.case('M:' + text)
        ctx.count('mixed_scripts')
        if not r.accepted or r.stops:
            ctx.violation('mixed:rejected-or-aborted', '{} {} | {}'.format(
                r.errors, r.stops[:1], text[:300]), replay)
            continue
        for rv in r.range:
            ctx.violation('range:' + rv[0].split('.')[-1] + ':' + rv[1],
                          'out-of-protocol argument {} at {} | {}'.format(
                              rv[2], rv[0], text[:300]), replay)
        cur, j = [], 0
        for e in r.log:
            if e[0] in ('dev', 'lan'):
                cur.append(e)
            elif e[0] == 'out' and e[1] == 'out' and \
                    j < reps * len(segs) and e[2] == j % len(segs):
                mode, vals, cmd = segs[j % len(segs)]
                if not cur:
                    ctx.violation('mixed:nothing-sent', 'segment {} ({}) sent '
                                  'nothing | {}'.format(j, cmd, text[:300]),
                                  replay)
                check_events(ctx, mode, vals, cur, replay, ':mixed')
                ctx.count('mixed_segments')
                cur, j = [], j + 1


def part_roundtrip(ctx):
    devs = simnet.SimLan.devices
    a = devs[0]
    # read back in logical units, then re-transmitted through three command
    # kinds (light, zone, matrix cell)
    job = ScriptJob.from_string(
        'get "A" set "B" set "Z" zone 0 set "M" row 0 column 0')
    assert job.program is not None
    n = 0
    for i in range(ctx.shard, 65536, ctx.nshards):
        k = (i * 7) % 65536
        a.color = [i, i, i, k]
        env.reset_monitors()
        job.execute()
        n += 1
        sent = {}
        for e in simnet.LOG:
            if e[0] != 'dev' or e[4] != 'ok':
                continue
            if e[1] == 'B' and e[2] == 'set_color':
                sent['light'] = e[3][0]
            elif e[1] == 'Z' and e[2] == 'set_zone_color':
                sent['zone'] = e[3][2]
            elif e[1] == 'M' and e[2] == 'SetTileState64':
                sent['cell'] = e[3][0]['colors'][0]
        replay = {'part': 'roundtrip', 'raw': [i, i, i, k]}
        if env.MACHINE_STOPS or len(sent) != 3:
            ctx.violation('roundtrip:abort', 'get/set of raw {} -> {} {}'.format(
                a.color, env.MACHINE_STOPS[:1], sent), replay)
            continue
        for rv in simnet.RANGE_VIOLATIONS:
            ctx.violation('range:' + rv[1], repr(rv), replay)
        for kind, got in sent.items():
            ctx.count('values_checked', 4)
            ok = (got[1:] == [i, i, k] and oracle.hue_dist(got[0], i) == 0)
            if not ok:
                ctx.violation('roundtrip:logical:' + kind,
                              'raw {} read in logical units is sent back as {} '
                              '({})'.format(a.color, got, kind), replay)
    ctx.cases_enumerated(n)
    ctx.count('roundtrip_logical', n)
    # raw -> rgb -> raw
    rng = ctx.rng('rgbtrip', ctx.shard)
    job = ScriptJob.from_string('units rgb get "A" set "B"')
    m = (200000 if ctx.tier == 'thorough' else 16000) // ctx.nshards
    for _ in range(m):
        col = [rng.randrange(65536) for _ in range(4)]
        if rng.random() < 0.1:
            col[rng.randrange(3)] = rng.choice((0, 1, 65534, 65535))
        a.color = list(col)
        env.reset_monitors()
        job.execute()
        sets = [e for e in simnet.LOG if e[0] == 'dev' and e[1] == 'B'
                and e[2] == 'set_color']
        replay = {'part': 'rgbtrip', 'raw': col}
        ctx.case('X2:' + repr(col))
        if env.MACHINE_STOPS or len(sets) != 1:
            ctx.violation('rgbtrip:abort', '{} {}'.format(
                col, env.MACHINE_STOPS[:1]), replay)
            continue
        got = sets[0][3][0]
        ctx.count('values_checked', 4)
        # compared as colours: brightness 0 is black whatever the rest says,
        # saturation 0 is grey whatever the hue says
        if col[2] == 0:
            bad = got[2] != 0 or got[3] != col[3]
        else:
            hue_free = col[1] == 0
            bad = (abs(got[1] - col[1]) > 1 or abs(got[2] - col[2]) > 1
                   or got[3] != col[3]
                   or (not hue_free and oracle.hue_dist(got[0], col[0]) > 1))
        if bad:
            ctx.violation('rgbtrip:colour',
                          'raw {} read in rgb units is sent back as {}'.format(
                              col, got), replay)
    ctx.count('roundtrip_rgb', m)
    ctx.sample({'part': 'roundtrip', 'script': 'get "A" set "B"',
                'device_A_raw': [ctx.shard, ctx.shard, ctx.shard, 0]})


DELAYS = {'sec': [-5, -0.5, -0.0005, 0, 0.0004, 0.0005, 0.001, 0.25, 1, 2.5,
                  60, 86400, 4294967.295, 4294968, 1e7],
          'raw': [-2000, -1, -0.4, 0, 0.4, 1, 250, 999, 1500, 86400000,
                  2 ** 32 - 1, 2 ** 32, 1e12]}
LIMIT = (2 ** 32 - 1) / 1000.0


def part_delays(ctx):
    """the delay requested from the clock before a command: `time` seconds in
    logical and rgb units, milliseconds in raw units, never negative --
    literals, expressions and values carried through a unit switch"""
    n = 3000 if ctx.tier == 'thorough' else 300
    for i in range(ctx.shard, n, ctx.nshards):
        rng = ctx.rng('delays', i)
        parts, want = [], []
        mode = 'logical'
        for j in range(rng.randint(1, 4)):
            new = rng.choice(['logical', 'raw', 'rgb'])
            t = rng.choice(DELAYS['raw' if new == 'raw' else 'sec'])
            form = rng.choice(['plain', 'plain', 'braces', 'sum', 'negated'])
            if form == 'negated' and t < 0:
                arg = '{ 0 - ' + lit(-t) + ' }'
            elif form == 'braces':
                arg = '{ ' + lit(t) + ' }'
            elif form == 'sum':
                arg = '{ ' + lit(t) + ' + 0 }'
            else:
                arg = lit(t)
            if want and rng.random() < 0.25:
                # not stated again: the delay in force is carried through the
                # unit switch (the same span of time)
                parts.append('units {} {} print {}'.format(
                    new, rng.choice(COMMANDS), j))
                want.append(want[-1])
                ctx.count('delays_carried')
            else:
                parts.append('units {} time {} {} print {}'.format(
                    new, arg, rng.choice(COMMANDS), j))
                want.append(t / 1000.0 if new == 'raw' else t)
            mode = new
        text = ' '.join(parts) + ' time 0'
        r = run_script(text)
        replay = {'part': 'delays', 'script': text}
        ctx.case('T:' + text)
        if not r.accepted or r.stops:
            ctx.violation('delays:rejected-or-aborted', '{} {} | {}'.format(
                r.errors, r.stops[:1], text[:300]), replay)
            continue
        seg, got = 0, []
        for e in r.log:
            if e[0] == 'clock' and e[1] == 'pause_for':
                got.append(e[2][0])
            elif e[0] == 'out' and e[1] == 'out' and seg < len(want) and \
                    e[2] == seg:
                w = want[seg]
                bad = None
                if any(not isinstance(g, (int, float)) or g < 0 for g in got):
                    bad = 'negative'
                elif w <= 0:
                    if any(g != 0 for g in got):
                        bad = 'delay-for-no-time'
                elif w <= LIMIT:
                    if len(got) != 1 or abs(got[0] - w) > 1e-9 * max(1, w):
                        bad = 'wrong-delay'
                elif len(got) != 1 or not LIMIT * (1 - 1e-9) <= got[0] <= \
                        w * (1 + 1e-9):
                    bad = 'beyond-range'
                if bad:
                    ctx.violation(
                        'delays:' + bad,
                        'segment {}: the clock was asked for {} where the '
                        'script says {} s | {}'.format(seg, got[:3], w,
                                                       text[:300]), replay)
                    break
                ctx.count('delays_checked')
                seg, got = seg + 1, []


def run_shard(ctx):
    env.configure(simnet.make_devices(DEVICES))
    part_delays(ctx)
    part_roundtrip(ctx)
    part_mixed(ctx)
    part_grid(ctx)


def finalize(merged):
    c = merged['counters']
    if c.get('roundtrip_logical') != 65536 and not merged['violations']:
        merged['inconclusive'].append('exhaustive sweep incomplete: {}'.format(
            c.get('roundtrip_logical')))
    for m in ('grid_logical', 'grid_raw', 'grid_rgb', 'values_checked',
              'mixed_segments', 'delays_checked'):
        if not c.get(m):
            merged['inconclusive'].append('no ' + m)
    merged['coverage_extra'] = {
        'exhaustive_subspaces': ['X1: 65536 raw values per component'],
        'transmitted_values_checked': c.get('values_checked', 0)}


def replay(doc):
    from bvf.harness import Ctx
    env.configure(simnet.make_devices(DEVICES))
    ctx = Ctx('C07', 'quick', 0, 0, 1)
    r = doc.get('replay') or {}
    if r.get('part') == 'mixed':
        run = run_script(r['script'])
        for e in run.log:
            print(e)
        print('segments:', r['segments'])
    elif r.get('part') == 'grid':
        run = run_script(r['script'])
        for e in run.dev_events():
            print(e)
        check_run(ctx, r['mode'], r['vals'], run, r)
    else:
        print('replay of', r.get('part'), 'raw', r.get('raw'),
              ': set device A to the raw colour, run the script in the module')
    for v in ctx.violations:
        print('VIOLATION property=C07', v['mech'], v['what'])
    return 1 if ctx.violations else 0
