"""C16 -- compilation depends only on the token sequence; every documented
name is usable.

L  layout: the token sequence of a generated program is laid out 12-20 times
   (arbitrary blanks, tabs, line breaks, comments, H/S/B/K, no white space at
   all around operators, braces and brackets); every layout must compile to
   the same instruction list (repr; time patterns by their match table).
V  optional syntax: the same AST rendered with brackets round routine calls
   and braces round single numeric values must compile to the same program
   after normalising `PUSH v; POP d` to `MOVE v d`, *and* produce the same
   event log.
I  identifiers: a candidate name is used as variable, macro, parameter,
   routine, function, loop variable and light variable in template scripts;
   each must compile and produce the event log of the same script with a
   neutral name.
S  strings: random strings without double quote and line break (forced to
   contain # \\ { } [ ] and trailing backslashes) as print values, variable and
   macro values and light names.
"""
import itertools
import re

from bvf import diffrun, env, gen, refmodel, render, simnet, vmmon
from bvf.harness import sig
from bvf.runner import run_script
from bardolph.parser.parse import Parser
from bardolph.vm.vm_codes import OpCode, Register

ID = 'C16'
MANIFEST = {
    'category': 'exploration',
    'technique': 'metamorphic equality of compiled instruction lists under '
                 're-layout; event-log equality under renaming and optional '
                 'bracketing',
    'text': 'Generated programs are re-laid-out (white space, comments, '
            'abbreviations, zero white space around punctuation) and must '
            'compile to identical instruction lists; optional brackets/braces '
            'must give the same normalised program and the same event log; all '
            'identifiers of length <= 2, every case variant of every keyword, '
            'register and internal token-class name (<= 64 each) and random '
            'names up to length 8 are tried in seven name positions; random '
            'strings are pushed through print, variables, macros and light '
            'names. Layouts and long names are sampled, short names enumerated.'
            ' A quarter of the layouts start with a comment header direct'
            'ly above the script.',
    'note': 'Reserved set = the documented lower-case keywords, the registers '
            'and H S B K; the 14 built-in function names and the harness\'s '
            'extra built-in `choose` are not tried as names. Known findings '
            '(see known_findings.json): the undocumented words `not` and '
            '`breakpoint` are reserved; a string ending in a backslash '
            'followed by another quote on the same line is read as an escaped '
            'quote.',
}
LEVEL = 'exploration'
SHARDS = {'quick': 16, 'thorough': 16}
N = {'quick': 1500, 'thorough': 60000}
LAYOUTS = {'quick': 12, 'thorough': 20}
TIMEOUT = {'quick': 900, 'thorough': 10800}
RULE = ('L/V: one case = one layout or optional-syntax variant of a generated '
        'program; I: one case = (name, position); S: one case = one string in '
        'four uses; non-trivial: the layout differs from the canonical text / '
        'the name is not the neutral name; distinct = distinct texts.')
ASSUMPTIONS = [
    'a time pattern keeps the blank or line end the lexer\'s look-ahead needs',
    'two words / numbers / strings are never run together',
    'braces are put only round numeric values (the manual introduces them for '
    'numerical expressions)',
]

DOC_KEYWORDS = ('all and as assign at begin break column cycle default define '
                'else end from get group if in location logical off on or '
                'pause print printf println raw repeat return rgb row set '
                'stage to units wait while with zone').split()
REGISTERS = ('hue saturation brightness kelvin red green blue duration '
             'time').split()
ABBREV = ['H', 'S', 'B', 'K']
BUILTINS = ('round trunc floor ceil sqrt sin cos tan asin acos atan cycle '
            'random choose').split()
TEMPLATE_NAMES = {'zf', 'zp', 'zq', 'zz', 'zs', 'zm', 'zi'}
RESERVED = set(DOC_KEYWORDS) | set(REGISTERS) | set(ABBREV) | set(BUILTINS) \
    | TEMPLATE_NAMES
INTERNAL_WORDS = ('number eof mark name error null unknown compare register '
                  'literal_string syntax_error time_pattern not breakpoint '
                  'operand result power pc matrix').split()
NEUTRAL = 'zq'

FIRST = 'abcdefghijklmnopqrstuvwxyzABCDEFGHIJKLMNOPQRSTUVWXYZ_'
REST = FIRST + '0123456789'

TEMPLATES = {
    'variable': 'assign {n} 5 print {n} assign {n} {{ {n} + 1 }} print {n}',
    'macro': 'define {n} 7 print {n} hue {n} print hue',
    'parameter': 'define zf with {n} begin print {n} assign {n} {{ {n} * 2 }} '
                 'return {n} end print [ zf 3 ]',
    'routine': 'define {n} begin print 9 on "A" end {n} [ {n} ]',
    'function': 'define {n} with zp begin return {{ zp * 2 }} end '
                'print [ {n} 4 ] print {{ 1 + [ {n} 1 ] }}',
    'loopvar': 'repeat with {n} from 1 to 2 print {n} '
               'repeat 2 with {n} from 10 to 20 print {n}',
    'lightvar': 'repeat all as {n} begin print {n} on {n} end',
    'named-field': 'assign {n} 3 printf "{{{n}}} {{}}" {n}',
    # the name as the very last token, where a further operand could follow
    'tail-zone': 'assign {n} 1 hue 9 set "Z" zone {n}',
    'tail-row': 'define {n} 1 set "M" row 0 column {n}',
    'tail-print': 'assign {n} 4 print {n} print',
    'tail-println': 'define zf with {n} begin print {n} println end zf 6 println',
    'tail-return': 'define zf with {n} begin return {n} end print [ zf 2 ] '
                   'assign {n} 8 hue {n}',
    # a variable in every position where the grammar takes a number ...
    'number-positions':
        'assign {n} 1 set "Z" zone {n} set "Z" zone 0 {n} set "Z" zone {n} 3 '
        'set "M" row {n} column {n} set "M" row 0 {n} column 0 {n} '
        'set "M" column {n} row {n} 2 '
        'set "M" begin stage row {n} stage column 0 {n} end hue {n} duration {n} '
        'kelvin {n} repeat {n} print 1 repeat with zi from {n} to 2 print zi '
        'repeat 2 with zm from 0 to {n} print zm repeat 2 with zm cycle {n} '
        'print zm if {n} print 2 repeat while {{ {n} < 1 }} break '
        'define zf with zp zs begin return {{ zp + zs }} end '
        'print [ zf {n} {n} ] zf {n} 2 time {n} wait print {{ - {n} }} '
        'println {n} units raw time {n} wait',
    # ... and a name
    'name-positions':
        'assign {n} "A" get {n} on {n} set {n} off {n} and {n} '
        'repeat in {n} and "B" as zi print zi repeat in "B" and {n} as zi '
        'begin print zi end assign {n} "G" on group {n} '
        'repeat in group {n} as zi print zi assign {n} "P" off location {n} '
        'assign {n} "Z" set {n} zone 1 assign {n} "M" set {n} row 0 '
        'set {n} begin stage row 1 end',
}
DEVICES = [dict(label='A', group='G', location='P'),
           dict(label='B', group='G', location='P'),
           dict(label='Z', group='H', location='P', kind='mz', zones=8),
           dict(label='M', group='H', location='P', kind='matrix', height=3,
                width=2)]


def compile_listing(text):
    p = Parser()
    try:
        ok = p.parse(text)
    except Exception as ex:
        return None, 'compiler raised {!r}'.format(ex)
    if not ok:
        return None, p.get_errors().strip()
    return vmmon.fingerprint(p.get_program()), ''


def normalise(fp):
    """PUSH(Q) v ; POP d  ->  MOVE(Q) v d ;  MOVE x x dropped; relative jump
    offsets become the index of their target in the normalised list"""
    out = []
    new_index = {}
    i = 0
    while i < len(fp):
        op, a, b = fp[i]
        new_index[i] = len(out)
        if op in (OpCode.PUSH, OpCode.PUSHQ) and i + 1 < len(fp) \
                and fp[i + 1][0] is OpCode.POP:
            new_index[i + 1] = len(out)
            dest = fp[i + 1][1]
            if a != dest:
                out.append(('MOVE', a, dest))
            i += 2
            continue
        if op in (OpCode.MOVE, OpCode.MOVEQ):
            if a != b:
                out.append(('MOVE', a, b))
            i += 1
            continue
        out.append((op, a, b, i) if op is OpCode.JUMP else (op, a, b))
        i += 1
    new_index[len(fp)] = len(out)
    for k, inst in enumerate(out):
        if inst[0] is OpCode.JUMP:
            op, cond, off, src = inst
            try:
                target = new_index.get(src + int(off), 'outside')
            except ValueError:
                target = off
            out[k] = (op, cond, target)
    return out


def part_layout(ctx):
    n = N[ctx.tier]
    for i in range(ctx.shard, n, ctx.nshards):
        rng = ctx.rng('layout', i)
        pop = gen.random_population(rng, 5)
        try:
            prog, tags, dec = gen.generate(rng, pop, PROFILE)
        except gen.TooBig:
            continue
        toks = render.tokens(prog, rng, redundant=0.2)
        canon = render.canonical(toks)
        base, err = compile_listing(canon)
        if base is None:
            ctx.violation('layout:canonical-rejected',
                          err + ' | ' + canon[:500], {'text': canon})
            continue
        for k in range(LAYOUTS[ctx.tier]):
            text = render.layout(toks, rng,
                                 nospace=rng.choice([0.0, 0.5, 1.0]),
                                 abbreviate=rng.choice([0.0, 0.5, 1.0]),
                                 comments=rng.choice([0.0, 0.1, 0.3]))
            if rng.random() < 0.25:
                # a header: comment lines from column 0, the script right
                # below them (no blank line in between)
                text = ''.join(rng.choice(['# a script\n', '#\n', '#!ls\n',
                                           '# hue 5 set all\n'])
                               for _ in range(rng.randint(1, 3))) + text
                ctx.count('layouts_with_a_comment_header')
            ctx.case('L:' + sig(text), nontrivial=text != canon)
            fp, err = compile_listing(text)
            replay = {'part': 'layout', 'canonical': canon, 'text': text}
            if fp is None:
                ctx.violation('layout:rejected', '{} | layout {!r} of: {}'
                              .format(err, text[:300], canon[:300]), replay)
                break
            if fp != base:
                d = next((j for j, (x, y) in enumerate(zip(fp, base))
                          if x != y), min(len(fp), len(base)))
                ctx.violation(
                    'layout:different-program',
                    'instruction {} differs ({} vs {}) | layout {!r}'.format(
                        d, fp[d] if d < len(fp) else None,
                        base[d] if d < len(base) else None, text[:400]), replay)
                break
            ctx.count('layouts_equal')
        # V: optional brackets and braces
        vt = render.tokens(prog, ctx.rng('variant', i), redundant=0.0,
                           brace_single=0.6, bracket_calls=0.5)
        plain = render.tokens(prog, None)
        ta, tb = render.canonical(plain), render.canonical(vt)
        if ta != tb:
            ctx.case('V:' + sig(tb))
            fa, ea = compile_listing(ta)
            fb, eb = compile_listing(tb)
            replay = {'part': 'variant', 'plain': ta, 'variant': tb,
                      'population': pop, 'decisions': dec}
            if fa is None or fb is None:
                ctx.violation('variant:rejected', '{} {} | {}'.format(
                    ea, eb, (tb if fb is None else ta)[:500]), replay)
                continue
            if normalise(fa) != normalise(fb):
                na, nb = normalise(fa), normalise(fb)
                d = next((j for j, (x, y) in enumerate(zip(na, nb))
                          if x != y), min(len(na), len(nb)))
                ctx.violation('variant:different-program',
                              'instruction {}: {} vs {} | {}'.format(
                                  d, na[d] if d < len(na) else None,
                                  nb[d] if d < len(nb) else None, tb[:400]),
                              replay)
                continue
            diffrun.setup(pop)
            la = refmodel.stream_of(run_script(ta, dec).log)
            diffrun.setup(pop)          # same initial device state
            lb = refmodel.stream_of(run_script(tb, dec).log)
            if repr(la) != repr(lb):
                d = next((j for j, (x, y) in enumerate(zip(la, lb))
                          if repr(x) != repr(y)), min(len(la), len(lb)))
                ctx.violation('variant:different-behaviour',
                              'event #{}: {} vs {} | {}'.format(
                                  d, la[d] if d < len(la) else None,
                                  lb[d] if d < len(lb) else None, tb[:400]),
                              replay)
                continue
            ctx.count('variants_equal')
        if i % 600 < ctx.nshards:
            ctx.sample({'part': 'layout', 'canonical': canon[:200],
                        'layout': text[:200]})


PROFILE = gen.profile(len=(4, 25), depth=3)


def case_variants(word, cap=64):
    combos = itertools.product(*[(c.lower(), c.upper()) if c.isalpha() else (c,)
                                 for c in word])
    out = []
    for c in combos:
        w = ''.join(c)
        if w != word:
            out.append(w)
        if len(out) >= cap:
            break
    return out


def candidates(ctx):
    names = list(FIRST) + [a + b for a in FIRST for b in REST]
    for w in DOC_KEYWORDS + REGISTERS + INTERNAL_WORDS:
        names.extend(case_variants(w))
    names.extend(INTERNAL_WORDS)
    rng = ctx.rng('names')
    extra = 20000 if ctx.tier == 'thorough' else 1500
    for _ in range(extra):
        k = rng.randint(3, 8)
        names.append(rng.choice(FIRST) + ''.join(rng.choice(REST)
                                                 for _ in range(k - 1)))
    seen = set()
    out = []
    for nme in names:
        if nme in seen or nme in RESERVED or nme == NEUTRAL:
            continue
        seen.add(nme)
        out.append(nme)
    return out


KNOWN_RESERVED = {'not': 'reserved-undocumented-word:not',
                  'breakpoint': 'reserved-undocumented-word:breakpoint'}


def part_names(ctx):
    env.configure(simnet.make_devices(DEVICES))
    baseline = {}
    for pos, tmpl in TEMPLATES.items():
        r = run_script(tmpl.format(n=NEUTRAL))
        assert r.accepted and not r.stops, (pos, r.errors, r.stops)
        baseline[pos] = repr(refmodel.stream_of(r.log))
    names = candidates(ctx)
    positions = list(TEMPLATES)
    from bardolph.controller.script_job import ScriptJob
    used = ScriptJob()       # every text is also loaded into this one job
    for i, name in enumerate(names):
        if not ctx.mine(i):
            continue
        # short names and keyword variants in every position, others in two
        pos_list = positions if (len(name) <= 2 or name.lower() in
                                 DOC_KEYWORDS + REGISTERS + INTERNAL_WORDS) \
            else [positions[i % len(positions)],
                  positions[(i // 7) % len(positions)]]
        for pos in pos_list:
            text = TEMPLATES[pos].format(n=name)
            want = baseline[pos].replace(NEUTRAL, name)
            r = run_script(text)
            ctx.case('I:{}:{}'.format(name, pos))
            replay = {'part': 'name', 'name': name, 'position': pos,
                      'text': text}
            ok = r.compile_exc is None and r.accepted and not r.stops and \
                repr(refmodel.stream_of(r.log)) == want
            if ok:
                # ... whatever the same job object compiled before (the name
                # was a routine a moment ago, now it is a variable, ...)
                try:
                    used.load_string(text)
                    again = used.program is not None
                except Exception as ex:
                    again = repr(ex)
                if again is not True:
                    ctx.violation(
                        'name:depends-on-earlier-scripts:' + pos,
                        'accepted by a fresh job, {} by a job that had loaded '
                        'other scripts before | {}'.format(
                            'rejected (' + used.compile_errors.strip()[:80] + ')'
                            if again is False else again, text), replay)
                    used = ScriptJob()
                    break
                ctx.count('names_ok')
                continue
            if name in KNOWN_RESERVED:
                ctx.known_finding(KNOWN_RESERVED[name],
                                  '`{}` cannot be used as a name'.format(name))
                continue
            if r.compile_exc is not None:
                mech, what = 'name:compiler-crash', repr(r.compile_exc)
            elif not r.accepted:
                mech, what = 'name:rejected', r.errors.strip()
            elif r.stops:
                mech, what = 'name:abort', repr(r.stops[0][:3])
            else:
                mech, what = 'name:different-behaviour', 'event log differs'
            kind = ('keyword-case-variant' if name.lower() in DOC_KEYWORDS
                    + REGISTERS else 'internal-word'
                    if name.lower() in INTERNAL_WORDS else 'plain')
            ctx.violation('{}:{}:{}'.format(mech, kind, pos),
                          '{} | {}'.format(what, text), replay)
            break
    ctx.sample({'part': 'name', 'name': 'If', 'script':
                TEMPLATES['parameter'].format(n='If')})


SPECIAL = ['#', '\\', '{', '}', '[', ']', '(', ')', ' ', '  ', '%', "'", '`',
           ':', '8:00', '*', '-', '\t', 'é', 'ß', '日本', '\\n', '\\\\', 'end',
           'begin', '{}', '{0}', '#!', '/*', '"'[0:0],
           # control characters that are not line breaks
           '\x0b', '\x0c', '\x1c', '\x1d', '\x1e', '\x1f', '\x07', '\xa0']


WHOLE = ['{', '}', '[', ']', '(', ')', '-', '+', '*', '/', '%', '^', '#', ':',
         '<', '>', '==', '<=', '!=', 'not', 'and', 'or', 'end', 'begin', 'all',
         'hue', 'H', 'K', '8:00', '*:*', '5', '-5', '', ' ', 'define', 'as',
         'with', 'zone', 'row', 'default', 'eof', 'number']


def random_string(rng):
    if rng.random() < 0.2:
        return rng.choice(WHOLE)      # the whole string is one token-like word
    n = rng.randint(0, 12)
    parts = []
    for _ in range(n):
        r = rng.random()
        if r < 0.4:
            parts.append(rng.choice(SPECIAL))
        elif r < 0.9:
            parts.append(chr(rng.randint(32, 126)))
        else:
            parts.append(chr(rng.choice([0xe9, 0x3a9, 0x4e2d, 0x1f600, 0xa0])))
    s = ''.join(parts).replace('"', '')
    if rng.random() < 0.15:
        s += '\\'
    return s


def part_strings(ctx):
    n = (40000 if ctx.tier == 'thorough' else 3200) // ctx.nshards
    rng = ctx.rng('strings', ctx.shard)
    for _ in range(n):
        s = random_string(rng)
        if '\n' in s or '\r' in s:
            continue
        trailing = s.endswith('\\')
        form = rng.randrange(7)
        devices = list(DEVICES)
        if form == 0:
            text, want = 'print "{}"'.format(s), [s]
        elif form == 1:
            text, want = 'assign zs "{}"\nprint zs'.format(s), [s]
        elif form == 2:
            text, want = 'define zm "{}"\nprint zm'.format(s), [s]
        elif form == 5:
            text, want = ('define zf with zp begin print zp end\n'
                          'zf "{}"'.format(s)), [s]
        elif form == 6:
            text, want = ('define zf with zp zq begin print zp print zq end\n'
                          '[ zf "{}" 7 ]'.format(s)), [s, 7]
        elif form == 3:
            t = random_string(rng)
            # two strings on one line
            text, want = 'print "{}" print "{}"'.format(s, t), [s, t]
            trailing = trailing or '\\"' in text[:-1].replace('\\\\', '')
        else:
            if not s.strip():
                continue
            devices = DEVICES + [dict(label=s, group='G2', location='P')]
            text, want = 'on "{}"'.format(s), None
        env.configure(simnet.make_devices(devices))
        r = run_script(text)
        ctx.case('S:' + text)
        replay = {'part': 'string', 'text': text}
        if want is None:
            evs = [e for e in r.log if e[0] == 'dev' and e[2] == 'set_power']
            ok = r.accepted and not r.stops and len(evs) == 1 and \
                evs[0][1] == s
        else:
            got = [e[2] for e in r.log if e[0] == 'out' and e[1] == 'out']
            ok = r.accepted and not r.stops and got == want
        if ok:
            ctx.count('strings_ok')
            continue
        # the escape rule: backslash-quote inside a line is an escaped quote
        escaped = re.search(r'\\"', text.rstrip()[:-1]) is not None
        if escaped:
            ctx.known_finding(
                'string-backslash-before-quote',
                'a string ending in a backslash followed by another quote on '
                'the same line is read as an escaped quote')
            continue
        ctx.violation('string:mis-lexed', '{!r} -> accepted={} {} {}'.format(
            text, r.accepted, r.errors.strip()[:80], r.stops[:1]), replay)
    ctx.sample({'part': 'string', 'script': 'print "a#b{c}[d]\\\\"'})


def part_probes(ctx):
    """fixed witnesses of the open findings and of repaired defects"""
    env.configure(simnet.make_devices(DEVICES))
    for text, want in [('print {5%3}', [2]), ('print {7%4*2}', [6]),
                       ('assign zz{1+2}print zz', [3]),
                       ('if{1<2}print"yes"else print"no"', ['yes']),
                       ('hue{3*(2+1)}print hue', [9])]:
        r = run_script(text)
        got = [e[2] for e in r.log if e[0] == 'out' and e[1] == 'out']
        ctx.case('P:' + text)
        if not r.accepted or got != want:
            ctx.violation('layout:no-space-operator',
                          '{} -> accepted={} {} printed {}'.format(
                              text, r.accepted, r.errors.strip(), got),
                          {'part': 'probe', 'text': text})
    r = run_script('print "a\\" print "b"')
    got = [e[2] for e in r.log if e[0] == 'out' and e[1] == 'out']
    if got != ['a\\', 'b']:
        ctx.known_finding('string-backslash-before-quote',
                          'print "a\\" print "b" printed {!r}'.format(got))


def run_shard(ctx):
    env.configure(simnet.make_devices(DEVICES))
    part_layout(ctx)
    part_names(ctx)
    part_strings(ctx)
    if ctx.shard == 0:
        part_probes(ctx)


def finalize(merged):
    c = merged['counters']
    for need in ('layouts_equal', 'variants_equal', 'names_ok', 'strings_ok'):
        if not c.get(need) and not merged['violations']:
            merged['inconclusive'].append('monitor observed nothing: ' + need)


def replay(doc):
    r = doc['replay']
    env.configure(simnet.make_devices(DEVICES))
    for key in ('text', 'canonical', 'plain', 'variant'):
        if key in r:
            fp, err = compile_listing(r[key])
            print(key, repr(r[key])[:300])
            print('   ->', 'rejected: ' + err if fp is None
                  else '{} instructions'.format(len(fp)))
    return 0
