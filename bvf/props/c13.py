"""C13 -- the light directory stays self-consistent over any discovery/expiry
history.

D  histories of discover / failing discover / refresh (discover + expiry) /
   advance-time steps over a changing simulated population are applied to the
   production LightSet (on the production LifxLanApi and light wrappers).
   Deciders: (i) an icontract class invariant on LightSet, evaluated after
   every public method: names sorted, duplicate-free and exactly the known
   lights; every light in exactly one group and one location, the ones it
   reported; member lists sorted and non-empty; group/location name lists =
   the non-empty ones; (ii) a 30-line reference directory (name -> group,
   location, last seen) stepped in parallel and compared with every getter.
S  SortedList.next/prev against a brute-force "nearest remaining element" on
   all sorted lists over a 6-letter alphabet up to length 5 and all probes.
V  a `repeat all` iteration on the VM while lights expire between two steps
   of the iteration: every light that remains is visited exactly once, no
   light twice, and the iteration terminates.
"""
import itertools

from bvf import env, simnet       # (puts /verif/.deps on the path)

import icontract                   # noqa: E402
from bvf.env import injection, i_controller
from bvf.runner import run_script
from bardolph.controller import light as light_mod
from bardolph.controller import light_set as light_set_mod
from bardolph.lib.sorted_list import SortedList
from bardolph.vm.vm_codes import OpCode

ID = 'C13'
MANIFEST = {
    'category': 'exploration',
    'technique': 'icontract class invariant on LightSet + reference directory '
                 'stepped in parallel + brute-force oracle for SortedList',
    'text': 'Random histories of up to 12 steps (discover with an arbitrary '
            'population snapshot incl. renames and moves between groups and '
            'locations, failing discover, refresh with expiry, time advance '
            'around the age limit) over alphabets of 4 names / 3 groups / 2 '
            'locations are applied to the real LightSet through the real '
            'LifxLanApi on simulated devices; an icontract invariant runs '
            'after every public method and every getter is compared with a '
            'reference directory after every step (thorough: all histories of '
            'length <= 3 over a reduced alphabet are enumerated). SortedList '
            'stepping is checked exhaustively for lists up to length 5; '
            'iteration-with-removal is driven through the VM.'
            ' A quarter of the random histories use names that differ onl'
            'y by case or by a blank at either end.'
            ' A tenth of the random histories draw snapshots of up to 40 '
            'lights with numbered names.',
    'note': 'Trusted: reference directory; the virtual clock replacing '
            'bardolph.controller.light.time. A light counts as seen when a '
            'successful discovery returned it; expiry is strict (> age limit).',
}
LEVEL = 'exploration'
SHARDS = {'quick': 16, 'thorough': 16}
N = {'quick': 5000, 'thorough': 300000}
TIMEOUT = {'quick': 900, 'thorough': 10800}
EXHAUSTIVE = {'quick': False, 'thorough': False}
RULE = ('D: one case = one history; non-trivial = at least 3 steps of which '
        'one is a discovery that changed something; S: enumeration of all '
        'sorted lists x probes (counted as enumerated cases); V: one case = '
        'one iteration with removals; distinct = distinct histories.')
ASSUMPTIONS = [
    'light_gc_time = 300 s; a light is expired when its age is > 300',
    'a failed network scan is a WorkflowException from LifxLAN.get_lights',
]
NAMES = ['a', 'b', 'c', 'd', '']      # (a label may be empty)
GROUPS = ['G1', 'G2', 'G3']
LOCS = ['L1', 'L2']
MAX_AGE = 300
AGE = [MAX_AGE]          # the configured age of the history in progress


class VClock:
    now = 1000.0

    @staticmethod
    def time():
        return VClock.now


class InvariantBroken(Exception):
    pass


INV = {'evaluations': 0, 'last': ''}


def directory_consistent(self):
    """icontract invariant over a LightSet (self)"""
    INV['evaluations'] += 1
    names = list(self.get_light_names())
    lights = self.get_lights()
    problems = []
    if names != sorted(names):
        problems.append('names not sorted: {}'.format(names))
    if len(set(names)) != len(names):
        problems.append('duplicate names: {}'.format(names))
    if sorted(l.get_name() for l in lights) != names:
        problems.append('names {} != known lights {}'.format(
            names, sorted(l.get_name() for l in lights)))
    for what, get_names, get_members, attr in (
            ('group', self.get_group_names, self.get_group_lights, 'get_group'),
            ('location', self.get_location_names, self.get_location_lights,
             'get_location')):
        set_names = list(get_names())
        if set_names != sorted(set(set_names)):
            problems.append('{} names not sorted/unique: {}'.format(
                what, set_names))
        seen = {}
        for sn in set_names:
            members = list(get_members(sn) or [])
            if not members:
                problems.append('empty {} {!r} is listed'.format(what, sn))
            if members != sorted(set(members)):
                problems.append('{} {!r} members not sorted/unique: {}'.format(
                    what, sn, members))
            for m in members:
                seen.setdefault(m, []).append(sn)
        for l in lights:
            where = seen.get(l.get_name(), [])
            if where != [getattr(l, attr)()]:
                problems.append('light {!r} reports {} {!r} but is listed under '
                                '{}'.format(l.get_name(), what,
                                            getattr(l, attr)(), where))
        for m in seen:
            if m not in names:
                problems.append('{} member {!r} is not a known light'.format(
                    what, m))
    INV['last'] = '; '.join(problems[:3])
    return not problems


MonitoredLightSet = icontract.invariant(
    directory_consistent, error=lambda self: InvariantBroken(INV['last']))(
        light_set_mod.LightSet)


class RefDirectory:
    def __init__(self):
        self.known = {}            # name -> [group, location, last_seen]

    def discover(self, snapshot, now, fails):
        if fails:
            return False
        for d in snapshot:
            self.known[d['label']] = [d['group'], d['location'], now]
        return True

    def expire(self, now):
        for n in [n for n, v in self.known.items() if now - v[2] > AGE[0]]:
            del self.known[n]

    def sets(self, idx):
        out = {}
        for n, v in self.known.items():
            out.setdefault(v[idx], []).append(n)
        return {k: sorted(v) for k, v in out.items()}


def compare(ls, ref):
    names = sorted(ref.known)
    if list(ls.get_light_names()) != names:
        return 'light names {} expected {}'.format(
            list(ls.get_light_names()), names)
    if ls.get_light_count() != len(names):
        return 'light count {} expected {}'.format(ls.get_light_count(),
                                                   len(names))
    for n in NAMES + ['zz']:
        if (ls.get_light(n) is not None) != (n in ref.known):
            return 'get_light({!r}) is {}'.format(n, ls.get_light(n))
    for idx, get_names, get_members, what in (
            (0, ls.get_group_names, ls.get_group_lights, 'group'),
            (1, ls.get_location_names, ls.get_location_lights, 'location')):
        want = ref.sets(idx)
        if list(get_names()) != sorted(want):
            return '{} names {} expected {}'.format(what, list(get_names()),
                                                    sorted(want))
        for k in (GROUPS if idx == 0 else LOCS):
            got = get_members(k)
            got = list(got) if got is not None else None
            if got != want.get(k):
                return '{} {!r} members {} expected {}'.format(
                    what, k, got, want.get(k))
    return None


def random_snapshot(rng, names=NAMES, groups=GROUPS, locs=LOCS):
    k = rng.randint(0, len(names))
    return [{'label': n, 'group': rng.choice(groups),
             'location': rng.choice(locs),
             'kind': rng.choice(['plain', 'plain', 'mz', 'matrix']),
             'zones': 4, 'height': 2, 'width': 2}
            for n in rng.sample(names, k)]


# in a quarter of the random histories the lights report group and location
# names that differ from others only by a blank at either end or by case:
# different groups / locations all the same
PADDED_GROUPS = GROUPS + ['G1 ', ' G2', 'g3']
PADDED_LOCS = LOCS + ['L1 ', 'l2']


def random_history(rng):
    steps = []
    mode = rng.random()
    if mode < 0.25:
        def snap(r, _orig=random_snapshot):
            return _orig(r, NAMES + ['A', 'a '], PADDED_GROUPS, PADDED_LOCS)
    elif mode < 0.35:
        # a big house: snapshots of up to 40 lights whose names end in numbers
        # of different lengths, ten and more groups
        big_names = ['light-{}'.format(k) for k in range(1, 31)] + \
            ['bulb-{}'.format(c) for c in 'abcdefghij']
        big_groups = ['room {}'.format(k) for k in range(1, 13)]

        def snap(r, _orig=random_snapshot):
            out = _orig(r, big_names, big_groups, LOCS + ['L10', 'L9'])
            r.shuffle(out)      # the network reports them in any order
            return out
    else:
        snap = random_snapshot
    if rng.random() < 0.2:
        # another configured age, zero included (everything not seen in the
        # latest discovery is then gone at the next expiry)
        steps.append(('age', rng.choice([0, 0.0, 1, 30, 5000])))
    for _ in range(rng.randint(1, 12)):
        r = rng.random()
        if r < 0.4:
            steps.append(('discover', snap(rng)))
        elif r < 0.5:
            steps.append(('discover-fails', snap(rng)))
        elif r < 0.75:
            steps.append(('refresh', snap(rng)))
        elif r < 0.8:
            steps.append(('refresh-fails', snap(rng)))
        else:
            steps.append(('advance', rng.choice([0, 1, 100, 299, 300, 301,
                                                 150, 600])))
    return steps


def apply_history(ctx, steps, replay):
    VClock.now = 1000.0
    if steps and steps[0][0] == 'age':
        AGE[0] = steps[0][1]
        env.configure([], overrides={'light_gc_time': AGE[0]})
        ctx.count('histories_with_other_age')
        try:
            return apply_history(ctx, steps[1:], replay)
        finally:
            AGE[0] = MAX_AGE
            env.configure([], overrides={'light_gc_time': MAX_AGE})
    ls = MonitoredLightSet()
    ref = RefDirectory()
    changed = False
    for k, (op, arg) in enumerate(steps):
        before = repr(sorted(ref.known.items()))
        try:
            if op == 'advance':
                VClock.now += arg
            else:
                fails = op.endswith('fails')
                simnet.SimLan.devices = simnet.make_devices(arg)
                simnet.set_plan(simnet.FaultPlan(
                    silent={('*', 'get_lights')}) if fails else None)
                if op.startswith('discover'):
                    got = ls.discover()
                    want = ref.discover(arg, VClock.now, fails)
                    if bool(got) != want:
                        ctx.violation('discover:return-value',
                                      'step {} {}: returned {!r}'.format(
                                          k, op, got), replay)
                        return False
                else:
                    ls.refresh()
                    ref.discover(arg, VClock.now, fails)
                    ref.expire(VClock.now)
        except InvariantBroken as ex:
            ctx.violation('invariant:' + str(ex).split(':')[0][:40],
                          'after step {} {}: {}'.format(k, op, ex), replay)
            return False
        except Exception as ex:
            ctx.violation('raised:{}:{}'.format(op, type(ex).__name__),
                          'step {} {}: {!r}'.format(k, op, ex), replay)
            return False
        finally:
            simnet.set_plan(None)
        ctx.count('steps')
        ctx.count('step:' + op)
        msg = compare(ls, ref)
        if msg:
            ctx.violation('directory:' + msg.split(' ')[0] + '-' +
                          msg.split(' ')[1], 'after step {} {} {}: {}'.format(
                              k, op, arg if op == 'advance' else
                              [(d['label'], d['group'], d['location'])
                               for d in arg], msg), replay)
            return False
        if repr(sorted(ref.known.items())) != before and op != 'advance':
            changed = True
    return changed


def part_histories(ctx):
    n = N[ctx.tier]
    for i in range(ctx.shard, n, ctx.nshards):
        rng = ctx.rng('hist', i)
        steps = random_history(rng)
        changed = apply_history(ctx, steps, {'part': 'history', 'steps': steps})
        ctx.case('H:' + repr(steps), nontrivial=bool(changed)
                 and len(steps) >= 3)
        if i % 1500 < ctx.nshards:
            ctx.sample({'part': 'history', 'steps': [
                (op, a if op in ('advance', 'age') else
                 [(d['label'], d['group'], d['location']) for d in a])
                for op, a in steps]})
    if ctx.tier == 'thorough':
        # all histories of length <= 3 over 2 names / 2 groups / 1 location
        snaps = []
        for ka in (None, 'G1', 'G2'):
            for kb in (None, 'G1', 'G2'):
                snap = []
                if ka:
                    snap.append({'label': 'a', 'group': ka, 'location': 'L1'})
                if kb:
                    snap.append({'label': 'b', 'group': kb, 'location': 'L1'})
                snaps.append(snap)
        ops = [('discover', s) for s in snaps] + \
            [('refresh', s) for s in snaps] + \
            [('discover-fails', snaps[-1]), ('advance', 200), ('advance', 301)]
        k = 0
        for length in (1, 2, 3):
            for hist in itertools.product(ops, repeat=length):
                k += 1
                if not ctx.mine(k):
                    continue
                apply_history(ctx, list(hist), {'part': 'history',
                                                'steps': list(hist)})
                ctx.cases_enumerated(1)


def brute_next(lst, v):
    bigger = [x for x in lst if x > v]
    return min(bigger) if bigger else None


def brute_prev(lst, v):
    smaller = [x for x in lst if x < v]
    return max(smaller) if smaller else None


def part_sorted_list(ctx):
    alpha = ['b', 'd', 'f', 'h', 'j', 'l']
    probes = ['a', 'b', 'c', 'd', 'e', 'f', 'g', 'h', 'i', 'j', 'k', 'l', 'm',
              '', 'bb', 'zz']
    n = 0
    idx = 0
    for size in range(0, 6):
        for combo in itertools.combinations(alpha, size):
            idx += 1
            if not ctx.mine(idx):
                continue
            for order in ([combo, tuple(reversed(combo))] if size > 1
                          else [combo]):
                sl = SortedList(list(order)) if size != 1 else SortedList()
                if size == 1:
                    sl.add(order[0])
                # also build through add/remove
                sl2 = SortedList()
                for x in order:
                    sl2.add(x)
                    sl2.add(x)
                extra = 'k' if 'k' not in combo else None
                if extra:
                    sl2.add(extra)
                    sl2.remove(extra)
                    sl2.remove(extra)
                for s in (sl, sl2):
                    if list(s) != sorted(combo):
                        ctx.violation('sortedlist:content',
                                      '{} built from {}'.format(list(s), order),
                                      {'part': 'sortedlist'})
                        return
                    for p in probes:
                        n += 1
                        if s.next(p) != brute_next(combo, p) or \
                                s.prev(p) != brute_prev(combo, p):
                            ctx.violation(
                                'sortedlist:step',
                                'list {} probe {!r}: next {!r} prev {!r}'.format(
                                    list(s), p, s.next(p), s.prev(p)),
                                {'part': 'sortedlist', 'list': list(s),
                                 'probe': p})
                            return
                        if s.has(p) != (p in combo):
                            ctx.violation('sortedlist:has', '{} {!r}'.format(
                                list(s), p), {'part': 'sortedlist'})
                            return
    ctx.cases_enumerated(n)
    ctx.count('sortedlist_probes', n)


def part_iteration(ctx):
    """`repeat all` while lights expire between two steps of the iteration"""
    n = (4000 if ctx.tier == 'thorough' else 320) // ctx.nshards
    names = ['a', 'b', 'c', 'd', 'e', 'f']
    for j in range(n):
        rng = ctx.rng('iter', ctx.shard, j)
        VClock.now = 1000.0
        present = rng.sample(names, rng.randint(1, 6))
        pop = [{'label': x, 'group': rng.choice(GROUPS),
                'location': rng.choice(LOCS)} for x in sorted(present)]
        env.configure(simnet.make_devices(pop),
                      overrides={'light_gc_time': MAX_AGE})
        ls = env.light_set_instance()
        removals = {}      # DNEXT step number -> names that vanish
        vanish = rng.sample(present, rng.randint(0, len(present)))
        for v in vanish:
            removals.setdefault(rng.randint(0, len(present)), []).append(v)
        state = {'step': 0, 'gone': set()}

        def mutate():
            gone = removals.get(state['step'], [])
            state['step'] += 1
            if not gone:
                return
            state['gone'] |= set(gone)
            simnet.SimLan.devices = [d for d in simnet.SimLan.devices
                                     if d.label not in state['gone']]
            VClock.now += MAX_AGE + 1     # everything not seen again expires
            ls.refresh()

        def hook(job):
            table = job._machine._fn_table
            orig = table[OpCode.DNEXT]

            def dnext():
                mutate()
                orig()
            table[OpCode.DNEXT] = dnext

        text = 'repeat all as x begin print x end print "done"'
        from bardolph.controller.script_job import ScriptJob
        job = ScriptJob.from_string(text)
        hook(job)
        env.reset_monitors()
        r = run_script(text, job=job, budget=2000)
        visited = [e[2] for e in r.log if e[0] == 'out' and e[1] == 'out']
        replay = {'part': 'iteration', 'present': present,
                  'removals': removals}
        ctx.case('V:{}:{}'.format(present, sorted(removals.items())),
                 nontrivial=bool(vanish))
        remaining = sorted(set(present) - state['gone'])
        if r.stops or r.budget_exhausted or visited[-1:] != ['done']:
            ctx.violation('iteration:does-not-finish', '{} {} visited {}'
                          .format(r.stops[:1], r.budget_exhausted, visited),
                          replay)
            continue
        visited = visited[:-1]
        if len(set(visited)) != len(visited):
            ctx.violation('iteration:visited-twice', 'visited {}'.format(
                visited), replay)
        elif not set(remaining) <= set(visited):
            ctx.violation('iteration:missed', 'remaining {} visited {}'.format(
                remaining, visited), replay)
        else:
            ctx.count('iterations_ok')
    ctx.sample({'part': 'iteration', 'script':
                'repeat all as x begin print x end', 'removed_between_steps':
                True})


def run_shard(ctx):
    light_mod.time = VClock
    env.configure([], overrides={'light_gc_time': MAX_AGE})
    part_histories(ctx)
    part_sorted_list(ctx)
    light_set_mod.LightSet = MonitoredLightSet
    try:
        part_iteration(ctx)
    finally:
        pass
    ctx.count('invariant_evaluations', INV['evaluations'])


def finalize(merged):
    c = merged['counters']
    for need in ('invariant_evaluations', 'steps', 'sortedlist_probes',
                 'iterations_ok', 'step:refresh', 'step:discover-fails'):
        if not c.get(need) and not merged['violations']:
            merged['inconclusive'].append('monitor observed nothing: ' + need)
    merged['coverage_extra'] = {
        'icontract_invariant_evaluations': c.get('invariant_evaluations', 0),
        'exhaustive_subspaces': ['SortedList: all lists over 6 letters up to '
                                 'length 5 x 16 probes']}


def replay(doc):
    from bvf.harness import Ctx
    light_mod.time = VClock
    env.configure([], overrides={'light_gc_time': MAX_AGE})
    ctx = Ctx('C13', 'quick', 0, 0, 1)
    r = doc['replay']
    if r.get('part') == 'history':
        apply_history(ctx, [tuple(s) for s in r['steps']], r)
    for v in ctx.violations:
        print('VIOLATION property=C13', v['mech'], v['what'])
    return 1 if ctx.violations else 0
