"""C08 -- queued jobs run one at a time, in order, exactly once, and the queue
drains; background jobs run alongside.

The production JobControl/Agent run on real threads under the controlled
scheduler (bvf/sched.py): every statement of job_control.py is a possible
thread switch, locks/threads are scheduler shims.  1-3 client threads issue
add_job / insert_job / spawn_job (and stop / clear / status calls); job bodies
finish after 0-3 yield points, raise, or loop until stopped.  Every client
call (call and return) and every job start/end is recorded *at the boundary*
with the scheduler's logical clock.  Deciders:
  * interval checks: no two queued jobs overlap; every queued job that was
    not cleared runs exactly once; a raising job does not block successors;
  * linearisability against a 20-line sequential queue model: some order of
    the add/insert/clear calls and job ends, consistent with real-time order,
    reproduces the observed start order;
  * quiescence: has_jobs() is False, no background agent left;
  * is_running(name)/get_background() agree with a background job's
    execution interval;
  * invariant under the controller's own lock (checked on the outermost
    release while the lock is still held): the active agent is not queued, no
    agent is queued twice, no started agent is queued;
  * no exception escapes a thread except the job's own.
"""
import itertools

from bvf import env, sched
from bvf.harness import sig
from bardolph.lib import job_control

ID = 'C08'
MANIFEST = {
    'category': 'exploration',
    'technique': 'offline linearisability check of recorded call/return/'
                 'start/end histories against a sequential queue model, plus '
                 'an invariant asserted under the controller\'s own lock, over '
                 'seeded controlled schedules',
    'text': 'Seeded random-walk and PCT (depth 1-3) schedules at statement '
            'granularity of 1-3 client threads issuing 1-4 add/insert/spawn '
            'calls each, with job bodies that finish, raise or run until '
            'stopped, plus stop/clear/status calls. Histories are short (<= 12 '
            'client calls) so the linearisation search is exhaustive per '
            'history. Distinct schedules and histories are counted. Sampling '
            'of interleavings, not enumeration.'
            ' Every job body also asks the controller about itself (is_ru'
            'nning(name), has_jobs()) at its first and last statement.'
            ' A polling client reads has_jobs() 2-40 times in 30 % of the'
            ' scenarios (never False between the hand-over of a queued jo'
            'b and its end); job names carry blanks at either end.'
            ' One scenario in a hundred queues 18-130 jobs behind one tha'
            't runs until stopped; an idle second controller is questione'
            'd with every status call.',
    'note': 'Trusted: scheduler shims (Thread, RLock, Event), the sequential '
            'model. The 1 s lock time-out of JobControl never fires while the '
            'owner can run; bytecode-level switches inside one statement are '
            'not explored.',
}
LEVEL = 'exploration'
SHARDS = {'quick': 16, 'thorough': 16}
N = {'quick': 4000, 'thorough': 400000}
TIMEOUT = {'quick': 900, 'thorough': 14400}
RULE = ('one case = one scenario (clients, calls, job bodies) under one '
        'seeded schedule; non-trivial = at least two client threads or a '
        'completion callback interleaved with a client call; distinct = '
        'distinct sequences of scheduling choices.')
ASSUMPTIONS = [
    'RLock.acquire(timeout=1.0) never times out while the owner can run',
    'thread switches happen between statements of job_control.py, at lock '
    'operations and at the yield points of the test job bodies',
]

job_control.threading = sched.shim_threading
sched.install()
sched.instrument_module(job_control)


class JobFailed(Exception):
    pass


class JobKilled(BaseException):
    """not an Exception: what sys.exit(), Ctrl-C or a harness killing a body
    look like"""


RAISES = {'raise': JobFailed, 'raise-base': JobKilled, 'raise-exit': SystemExit,
          'raise-interrupt': KeyboardInterrupt}


class TJob(job_control.Job):
    def __init__(self, name, hist, kind, length):
        self.name, self.hist, self.kind, self.length = name, hist, kind, length
        self.stop = False
        self.runs = 0
        self.iterations = 0
        self.stop_seen_at_start = None
        self.jc = None
        self.unseen = []

    def observe(self, when):
        # what the controller's lock-free readers say about this job while
        # it is executing ("reported as running ... exactly while they
        # execute"; a queued job is the current one from its first statement
        # to its last)
        jc = self.jc
        if jc is None:
            return
        if not jc.is_running(self.name):
            self.unseen.append('is_running({!r}) is False at the {} of its '
                               'body'.format(self.name, when))
        elif not jc.has_jobs():
            self.unseen.append('has_jobs() is False at the {} of the body of '
                               '{!r}'.format(when, self.name))

    def execute(self):
        s = sched.S
        self.hist.append(('start', self.name, len(self.hist)))
        self.runs += 1
        self.stop_seen_at_start = self.stop
        self.observe('start')
        try:
            if self.kind == 'loop':
                n = 0
                while not self.stop and n < 200:
                    s.switch('body')
                    n += 1
                    self.iterations = n
            else:
                for _ in range(self.length):
                    s.switch('body')
            self.observe('end')
            if self.kind in RAISES:
                raise RAISES[self.kind](self.name)
        finally:
            self.hist.append(('end', self.name, len(self.hist)))

    def request_stop(self):
        self.stop = True


def gen_scenario(rng):
    clients = []
    jid = 0
    has_loop = False
    for c in range(rng.choice([1, 2, 2, 3])):
        ops = []
        for _ in range(rng.randint(1, 4)):
            r = rng.random()
            jid += 1
            # (a name is the text the caller gave, blanks at either end
            # included: the controller files, reports and stops a job under
            # exactly that text)
            pad = rng.choice(['', '', '', '', ' ', '  ', '\t'])
            name = rng.choice(['j{}' + pad, pad + 'j{}']).format(jid)
            kind = rng.choice(['finish', 'finish', 'finish', 'raise', 'loop',
                               'finish', 'finish', 'raise', 'loop',
                               rng.choice(['raise-base', 'raise-exit',
                                           'raise-interrupt'])])
            length = rng.randint(0, 3)
            if r < 0.5:
                ops.append(('add', name, kind, length))
            elif r < 0.75:
                ops.append(('insert', name, kind, length))
            elif r < 0.9:
                bgname = 'bg{}'.format(jid)
                if rng.random() < 0.3:
                    earlier = [o[1] for cl in clients + [ops] for o in cl
                               if o[0] == 'spawn']
                    # ... or differs from an earlier name only by a blank
                    bgname = (rng.choice(earlier).strip() + ' \t' * jid) \
                        if earlier and rng.random() < 0.5 else bgname + pad
                ops.append(('spawn', bgname, rng.choice(
                    ['finish', 'raise', 'loop', 'finish', 'loop',
                     'raise-base', 'raise-exit']), length))
                kind = ops[-1][2]
            else:
                jid -= 1
                # (clear_queue is not in the property's quantifier, but "every
                # queued job that is not explicitly cleared" is in its
                # statement: a job may stay unexecuted only if some
                # linearisation has it in the queue when a clear takes effect)
                mine = [o[1] for o in ops if o[0] in ('add', 'insert', 'spawn')]
                if mine and rng.random() < 0.4:
                    # a stop through the handle add/insert/spawn returned,
                    # whether that job is waiting, running or already over
                    ops.append(('stop_handle', rng.choice(mine)))
                    continue
                ops.append((rng.choice(['stop_current', 'status',
                                        'stop_current', 'clear']),))
                continue
            has_loop = has_loop or kind == 'loop'
        clients.append(ops)
    if rng.random() < 0.3 and len(clients) < 3:
        # a client that only watches: `while jc.has_jobs(): ...` is how the
        # front ends wait for the end
        clients.append([('status',)] * rng.choice([2, 4, 6, 12, 25, 40]))
    return clients, has_loop


def long_queue_scenario(rng):
    """many jobs waiting at once behind one that runs until stopped: every one
    of them is executed exactly once, in order (front-inserted ones first),
    however long the queue has grown"""
    n = rng.choice([18, 24, 33, 40, 70, 130])
    ops = [('add', 'j0', 'loop', 0)]
    for k in range(1, n + 1):
        kind = 'insert' if rng.random() < 0.08 else 'add'
        ops.append((kind, 'j{}'.format(k), rng.choice(
            ['finish', 'finish', 'finish', 'raise']), 0))
    clients = [ops]
    if rng.random() < 0.5:
        clients.append([('status',)] * rng.choice([3, 10]))
    return clients, True


def install_invariant(jc, hist, problems):
    lock = jc._lock
    started = set()

    def check():
        queue = list(jc._queue)
        active = jc._active_agent
        for t in hist:
            if t[0] == 'start':
                started.add(t[1])
        names = [a.name for a in queue]
        if active is not None and active in queue:
            problems.append('active agent {} is still in the queue'.format(
                active.name))
        if len(set(names)) != len(names):
            problems.append('an agent is queued twice: {}'.format(names))
        dup = [n for n in names if n in started]
        if dup:
            problems.append('started job(s) {} still queued'.format(dup))
    lock.on_release = check


def run_scenario(seed, clients, policy, depth):
    """returns dict(history, problems, has_jobs, background, schedule, ...)"""
    env.THREAD_EXCEPTIONS.clear()
    s = sched.begin(seed, policy=policy, depth=depth, max_steps=40000)
    hist = []
    problems = []
    jobs = {}
    handles = {}
    outcome = {'deadlock': None}
    try:
        jc = job_control.JobControl()
        install_invariant(jc, hist, problems)
        # a second controller in the same process that is never given a job
        # (ls_module's controller next to the web app's): it has nothing,
        # reports nothing and starts nothing, whatever the first one is doing
        idle = job_control.JobControl()

        def client(idx, ops):
            for op in ops:
                kind = op[0]
                rec = ('call', idx, kind, op[1] if len(op) > 1 else None,
                       len(hist))
                hist.append(rec)
                result = None
                try:
                    if kind in ('add', 'insert', 'spawn'):
                        job = TJob(op[1], hist, op[2], op[3])
                        job.jc = jc
                        jobs[op[1]] = job
                        fn = {'add': jc.add_job, 'insert': jc.insert_job,
                              'spawn': jc.spawn_job}[kind]
                        handles[op[1]] = fn(job, op[1])
                    elif kind == 'stop_handle':
                        if handles.get(op[1]) is not None:
                            handles[op[1]].request_stop()
                    elif kind == 'stop_current':
                        result = jc.stop_current()
                    elif kind == 'clear':
                        jc.clear_queue()
                    elif kind == 'status':
                        result = (jc.has_jobs(), len(jc.get_queued()),
                                  [a.name for a in list(jc.get_background())])
                        other = (idle.has_jobs(), len(idle.get_queued()),
                                 len(list(idle.get_background())),
                                 idle.get_current())
                        if other != (False, 0, 0, None):
                            problems.append(
                                'another controller, never given a job, '
                                'reports (has_jobs, queued, background, '
                                'current) = {}'.format(other))
                except sched.SchedAbort:
                    raise
                except Exception as ex:
                    problems.append('client call {} raised {!r}'.format(
                        kind, ex))
                hist.append(('ret', idx, kind, op[1] if len(op) > 1 else None,
                             len(hist), result))
        threads = [sched.ShimThread(target=client, args=(i, ops),
                                    name='client{}'.format(i))
                   for i, ops in enumerate(clients)]
        for t in threads:
            t.start()

        def all_quiet():
            return all(x.done for x in s.order if x is not s.main)
        # stop jobs that loop until stopped, once the clients are done
        s.block_until(lambda: all(t._rec.done for t in threads)
                      or s.deadlock, 'clients')
        guard = 0
        while not all_quiet() and guard < 400:
            guard += 1
            for j in jobs.values():
                if j.kind == 'loop' and not j.stop and any(
                        h[0] == 'start' and h[1] == j.name for h in hist):
                    j.stop = True
            s.switch('driver')
        s.block_until(all_quiet, 'quiescence')
        outcome['has_jobs'] = jc.has_jobs()
        outcome['background'] = [a.name for a in list(jc.get_background())]
        outcome['queued'] = len(jc.get_queued())
        outcome['current'] = jc.get_current()
    except (sched.Deadlock, sched.Livelock) as ex:
        outcome['deadlock'] = str(ex)
    finally:
        sched.end()
    outcome.update(history=hist, problems=problems, jobs=jobs,
                   schedule=list(s.choices), steps=s.steps,
                   thread_exc=list(env.THREAD_EXCEPTIONS))
    return outcome


def linearisable(hist, cleared_ok=True):
    """search an order of enqueue/clear calls and job ends, consistent with
    real time, under which the model starts jobs in the observed order"""
    calls = {}
    items = []          # (kind, name, lo, hi)
    for h in hist:
        if h[0] == 'call' and h[2] in ('add', 'insert', 'clear'):
            calls[(h[1], h[2], h[3], 'open')] = h[4]
            items.append([h[2], h[3], h[4], None, h[1]])
        elif h[0] == 'ret' and h[2] in ('add', 'insert', 'clear'):
            for it in items:
                if it[0] == h[2] and it[1] == h[3] and it[4] == h[1] \
                        and it[3] is None:
                    it[3] = h[4]
                    break
    big = len(hist) + 1
    queued_names = {it[1] for it in items if it[0] in ('add', 'insert')}
    observed = [h[1] for h in hist if h[0] == 'start' and h[1] in queued_names]
    start_time = {h[1]: h[2] for h in hist if h[0] == 'start'
                  and h[1] in queued_names}
    for h in hist:
        if h[0] == 'end' and h[1] in queued_names:
            # the controller takes note of a completion some time after the
            # body has ended, at the latest before the next job starts
            k = observed.index(h[1])
            nxt = start_time[observed[k + 1]] if k + 1 < len(observed) else big
            items.append(['end', h[1], h[2], nxt, None])
    for it in items:
        if it[3] is None:
            it[3] = big
    n = len(items)
    order_constraints = [[j for j in range(n) if items[j][3] < items[i][2]]
                         for i in range(n)]
    seen = set()

    def dfs(done, queue, active, started):
        if len(done) == n:
            return started == len(observed) or True
        key = (frozenset(done), tuple(queue), active, started)
        if key in seen:
            return False
        seen.add(key)
        for i in range(n):
            if i in done or any(j not in done for j in order_constraints[i]):
                continue
            kind, name = items[i][0], items[i][1]
            q, a, st = list(queue), active, started
            if kind == 'add':
                q.append(name)
            elif kind == 'insert':
                q.insert(0, name)
            elif kind == 'clear':
                q = []
            else:
                if a != name:
                    continue
                a = None
            if a is None and q:
                a = q.pop(0)
                if st >= len(observed) or observed[st] != a:
                    continue
                st += 1
            if dfs(done | {i}, tuple(q), a, st):
                return True
        return False
    return dfs(frozenset(), (), None, 0)


def analyse(ctx, out, clients, replay):
    hist = out['history']
    if out['deadlock']:
        ctx.violation('deadlock' if out['deadlock'].startswith('DEAD')
                      else 'livelock', out['deadlock'][:300], replay)
        return False
    for p in out['problems']:
        if p.startswith('another controller'):
            ctx.violation('idle-controller-reports-jobs', p, replay)
            return False
        mech = 'invariant' if 'queue' in p else 'client-call-raised'
        ctx.violation(mech + ':' + p.split(' raised ')[-1][:40]
                      if mech != 'invariant' else mech, p, replay)
        return False
    for j in out['jobs'].values():
        for u in j.unseen:
            ctx.violation('executing-job-not-reported', u, replay)
            return False
        if j.runs:
            ctx.count('jobs_observing_themselves')
    for te in out['thread_exc']:
        if te[1] not in ('JobFailed', 'JobKilled', 'SystemExit',
                         'KeyboardInterrupt'):
            ctx.violation('thread-exception:' + te[1],
                          '{} in thread {} at {}'.format(te[2], te[0],
                                                         te[3][-1:]), replay)
            return False
    queued = {}
    bg = {}
    cleared = any(h[0] == 'call' and h[2] == 'clear' for h in hist)
    for ops in clients:
        for op in ops:
            if op[0] in ('add', 'insert'):
                queued[op[1]] = op
            elif op[0] == 'spawn':
                bg[op[1]] = op
    active = None
    starts = {}
    for h in hist:
        if h[0] == 'start' and h[1] in queued:
            starts[h[1]] = starts.get(h[1], 0) + 1
            if active is not None:
                ctx.violation('overlap', 'job {} started while {} was still '
                              'running'.format(h[1], active), replay)
                return False
            active = h[1]
        elif h[0] == 'end' and h[1] in queued:
            active = None
    for name in queued:
        k = starts.get(name, 0)
        if k > 1:
            ctx.violation('started-twice', 'job {} started {} times'.format(
                name, k), replay)
            return False
        if k == 0 and not cleared:
            ctx.violation('never-started', 'job {} was queued but never ran'
                          .format(name), replay)
            return False
    for name in bg:
        k = sum(1 for h in hist if h[0] == 'start' and h[1] == name)
        if k != 1:
            ctx.violation('background-runs-{}'.format(k),
                          'background job {} ran {} times'.format(name, k),
                          replay)
            return False
    # a stop through a job's handle that had returned before the job started
    # is not lost: the body finds the request waiting for it
    handle_stop_ret = {}
    for h in hist:
        if h[0] == 'ret' and h[2] == 'stop_handle':
            handle_stop_ret.setdefault(h[3], h[4])
    for name, t_ret in handle_stop_ret.items():
        t_start = next((h[2] for h in hist if h[0] == 'start'
                        and h[1] == name), None)
        job = out['jobs'].get(name)
        if job is None or t_start is None or t_start < t_ret:
            continue
        ctx.count('handle_stops_before_start')
        if job.stop_seen_at_start is False:
            ctx.violation('stop-through-handle-lost',
                          'job {} was asked to stop through its handle before '
                          'it started, and started without the request'
                          .format(name), replay)
            return False
    if out['has_jobs'] or out['background'] or out['queued'] \
            or out['current'] is not None:
        ctx.violation('not-drained', 'at quiescence has_jobs={} background={} '
                      'queued={} current={}'.format(
                          out['has_jobs'], out['background'], out['queued'],
                          out['current']), replay)
        return False
    # status reads while a background job certainly runs
    spans = {}
    for h in hist:
        if h[0] == 'ret' and h[2] == 'spawn':
            spans.setdefault(h[3], {})['spawned'] = h[4]
        elif h[0] == 'end' and h[1] in bg:
            spans.setdefault(h[1], {})['end'] = h[2]
    # ... and while a queued job is certainly unfinished (handed over before
    # the read began, ending after it returned): wherever the job is at that
    # moment -- waiting, being taken out of the queue, executing -- the
    # controller does not say that it has no jobs
    qspans = {}
    for h in hist:
        if h[0] == 'ret' and h[2] in ('add', 'insert'):
            qspans.setdefault(h[3], {})['handed'] = h[4]
        elif h[0] == 'end' and h[1] in queued:
            qspans.setdefault(h[1], {})['end'] = h[2]
    opens = {}
    for h in hist:
        if h[0] == 'call' and h[2] == 'status':
            opens[h[1]] = h[4]
        elif h[0] == 'ret' and h[2] == 'status' and h[5] is not None:
            t0, t1 = opens.get(h[1], h[4]), h[4]
            for name, sp in qspans.items():
                if 'handed' in sp and 'end' in sp and \
                        sp['handed'] < t0 and t1 < sp['end']:
                    ctx.count('status_reads_during_queued_job')
                    if not h[5][0]:
                        ctx.violation(
                            'no-jobs-reported-while-a-queued-job-is-unfinished',
                            'has_jobs() was False between the hand-over of {} '
                            'and its end'.format(name), replay)
                        return False
            for name, sp in spans.items():
                if 'spawned' in sp and 'end' in sp and \
                        sp['spawned'] < t0 and t1 < sp['end']:
                    ctx.count('status_reads_during_background_job')
                    if name not in h[5][2]:
                        ctx.violation(
                            'background-not-reported',
                            'background job {} not listed while it runs'
                            .format(name), replay)
                        return False
    if not linearisable(hist):
        ctx.violation('order', 'no linearisation of the add/insert calls '
                      'explains the start order {}'.format(
                          [h[1] for h in hist if h[0] == 'start'
                           and h[1] in queued]), replay)
        return False
    return True


# ------------------------------------------------- real script jobs alongside
SIDE_DEVICES = [dict(label='A', group='G', location='P'),
                dict(label='B', group='G', location='P'),
                dict(label='C', group='H', location='P')]
# each script keeps to its own light and prints values in its own thousand
SIDE_SCRIPTS = {
    'A': ('define dbl with x begin return { x * 2 } end assign t 1000 '
          'repeat 4 with i from 1 to 4 begin '
          'assign t { t + 10 + [ dbl i ] * 3 } on "A" end print t '
          'define tri with n begin if { n <= 0 } return 0 '
          'return { n + [ tri { n - 1 } ] } end print { 1000 + [ tri 6 ] }'),
    'B': ('define half with v begin return { v / 2 } end time 0.1 '
          'repeat 3 with k from 1 to 3 begin '
          'print { 2000 + k * 10 + [ half { k * 4 } ] } off "B" end '
          'time 0 print { 2000 + [ half 8 ] + [ half 6 ] * [ half 4 ] }'),
    'C': ('assign s 3000 repeat in "C" as x begin on x end '
          'define inc with a b begin return { a + b + 1 } end '
          'repeat 3 begin assign s [ inc s [ inc 1 1 ] ] set "C" end print s '
          'hue { 10 + [ inc 2 3 ] } set "C" print { 3000 + hue }'),
}
SIDE_SOLO = {}


def side_stream(log, key):
    lo = {'A': 1000, 'B': 2000, 'C': 3000}[key]
    out = []
    for e in log:
        if e[0] == 'dev' and e[1] == key:
            out.append((e[2], repr(e[3])))
        elif e[0] == 'out' and e[1] == 'out' and isinstance(
                e[2], (int, float)) and lo <= e[2] < lo + 1000:
            out.append(('print', e[2]))
    return out


def run_side(seed, keys, policy, depth):
    from bvf import simnet, vsys
    from bardolph.controller.script_job import ScriptJob
    env.THREAD_EXCEPTIONS.clear()
    env.MACHINE_STOPS.clear()
    s = sched.begin(seed, policy=policy, depth=depth, max_steps=400000)
    res = {'deadlock': None}
    try:
        vsys.configure(SIDE_DEVICES, 0.1)
        jobs = [(k, ScriptJob.from_string(SIDE_SCRIPTS[k])) for k in keys]
        jc = job_control.JobControl()
        for n, (k, job) in enumerate(jobs):
            if n == 0:
                jc.add_job(job, 'queued-' + k)
            else:
                jc.spawn_job(job, 'bg-' + k)
        s.block_until(lambda: not jc.has_jobs() or s.deadlock, 'all jobs')
        s.block_until(lambda: all(t.done for t in s.order if t is not s.main),
                      'threads', timeout=20)
    except (sched.Deadlock, sched.Livelock) as ex:
        res['deadlock'] = str(ex)
    finally:
        log = list(simnet.LOG)
        sched.end()
    res.update(log=log, stops=list(env.MACHINE_STOPS),
               thread_exc=list(env.THREAD_EXCEPTIONS), steps=s.steps,
               schedule=list(s.choices))
    return res


def part_side_by_side(ctx):
    """two or three real script jobs at the same time (one queued, the others
    in the background), each on its own machine: what each of them sends and
    prints is what it sends and prints when it runs alone"""
    for k in SIDE_SCRIPTS:
        if k not in SIDE_SOLO:
            r = run_side(1, [k], 'random', 1)
            assert not r['deadlock'] and not r['stops'], (k, r['deadlock'],
                                                          r['stops'])
            SIDE_SOLO[k] = side_stream(r['log'], k)
            assert len(SIDE_SOLO[k]) >= 6, (k, SIDE_SOLO[k])
    n = 6000 if ctx.tier == 'thorough' else 160
    for i in range(ctx.shard, n, ctx.nshards):
        rng = ctx.rng('side', i)
        keys = rng.sample(sorted(SIDE_SCRIPTS), rng.choice([2, 2, 3]))
        policy = rng.choice(['random', 'random', 'pct'])
        depth = rng.choice([1, 2, 3])
        seed = ctx.seed * 1000003 + i
        res = run_side(seed, keys, policy, depth)
        replay = {'part': 'side-by-side', 'scripts': keys, 'policy': policy,
                  'depth': depth, 'seed': seed}
        ctx.case('S:' + sig(res['schedule']), nontrivial=True)
        ctx.count('side_by_side_runs')
        if res['deadlock']:
            if res['deadlock'].startswith('LIVE'):
                ctx.count('side_by_side_budget_exhausted')
                continue
            ctx.violation('side-by-side:deadlock', res['deadlock'][:300],
                          replay)
            continue
        if res['stops'] or res['thread_exc']:
            ctx.violation('side-by-side:abort', '{} {} | scripts {}'.format(
                res['stops'][:1], res['thread_exc'][:1], keys), replay)
            continue
        for k in keys:
            got = side_stream(res['log'], k)
            if got != SIDE_SOLO[k]:
                d = next((j for j, (x, y) in enumerate(zip(got, SIDE_SOLO[k]))
                          if x != y), min(len(got), len(SIDE_SOLO[k])))
                ctx.violation('side-by-side:job-disturbed',
                              'script {} alongside {}: event {} is {} where it '
                              'is {} when the script runs alone'.format(
                                  k, [x for x in keys if x != k], d,
                                  got[d] if d < len(got) else None,
                                  SIDE_SOLO[k][d] if d < len(SIDE_SOLO[k])
                                  else None), replay)
                break
        else:
            ctx.count('side_by_side_ok')


def run_shard(ctx):
    env.configure([])
    part_side_by_side(ctx)
    env.configure([])
    n = N[ctx.tier]
    for i in range(ctx.shard, n, ctx.nshards):
        rng = ctx.rng('c08', i)
        clients, has_loop = gen_scenario(rng)
        if i % (97 if ctx.tier == 'quick' else 499) == 11:
            clients, has_loop = long_queue_scenario(rng)
            ctx.count('long_queue_scenarios')
        policy = rng.choice(['random', 'random', 'pct'])
        depth = rng.choice([1, 2, 3])
        out = run_scenario(ctx.seed * 1000003 + i, clients, policy, depth)
        hist = out['history']
        replay = {'clients': clients, 'policy': policy, 'depth': depth,
                  'seed': ctx.seed * 1000003 + i,
                  'history': [list(map(str, h)) for h in hist][:80]}
        # did a completion callback run between call and return of an enqueue?
        interleaved = False
        open_calls = 0
        for h in hist:
            if h[0] == 'call' and h[2] in ('add', 'insert'):
                open_calls += 1
            elif h[0] == 'ret' and h[2] in ('add', 'insert'):
                open_calls -= 1
            elif h[0] == 'end' and open_calls > 0:
                interleaved = True
        ctx.case(sig(out['schedule']),
                 nontrivial=len(clients) >= 2 or interleaved)
        if interleaved:
            ctx.count('completion_inside_concurrent_enqueue')
        ctx.count('scheduler_steps', out['steps'])
        ctx.count('policy:' + policy)
        for ops in clients:
            for op in ops:
                ctx.count('call:' + op[0])
                if len(op) > 2:
                    ctx.count('body:' + op[2])
        ctx.extra.setdefault('hist', set())
        if analyse(ctx, out, clients, replay):
            ctx.count('histories_ok')
            ctx.count('events', len(hist))
        ctx.extra['hist'].add(sig([h[:4] for h in hist]))
        if i % 1000 < ctx.nshards:
            ctx.sample({'clients': clients, 'policy': policy,
                        'history': [list(map(str, h[:4])) for h in hist][:40]})
    ctx.extra['hist'] = len(ctx.extra.get('hist', ()))


def finalize(merged):
    c = merged['counters']
    merged['coverage_extra'] = {
        'distinct_histories_per_shard_sum': sum(merged['extra'].get('hist', [])),
        'completion_inside_concurrent_enqueue':
            c.get('completion_inside_concurrent_enqueue', 0),
        'scheduler_steps': c.get('scheduler_steps', 0)}
    for need in ('histories_ok', 'completion_inside_concurrent_enqueue',
                 'policy:pct', 'call:clear', 'call:stop_handle',
                 'side_by_side_ok',
                 'body:raise-base', 'body:loop'):
        if not c.get(need) and not merged['violations']:
            merged['inconclusive'].append('monitor observed nothing: ' + need)


def replay(doc):
    from bvf.harness import Ctx
    env.configure([])
    r = doc['replay']
    ctx = Ctx('C08', 'quick', 0, 0, 1)
    clients = [[tuple(op) for op in ops] for ops in r['clients']]
    out = run_scenario(r['seed'], clients, r['policy'], r['depth'])
    for h in out['history']:
        print(h)
    analyse(ctx, out, clients, r)
    for v in ctx.violations:
        print('VIOLATION property=C08', v['mech'], v['what'])
    return 1 if ctx.violations else 0
