"""C05 -- on every path, compiled control transfers stay in the script and
frames balance.

Marker programs: every statement slot prints a unique number and every
condition and most loop counts are `[choose k]`, so the control path is a pure
function of a scripted decision stream.  Each program is compiled once and run
under the VM step monitor (bvf/vmmon.py) with decision streams chosen by a
coverage-guided loop until both outcomes of every conditional jump and every
instruction of the loaded image have been executed (or 40 runs).  Deciders:
  * the online automata of vmmon (pc range, segment discipline, call/return
    pairing, loop pairing, quiescence, program immutability);
  * the whole-image invariants evaluated at the loader hook for every jump,
    taken or not (target identity against the pre-load program, segments,
    routine table, LOOP/END_LOOP balance by data-flow over all paths);
  * the marker trace predicted by the reference interpreter under the same
    decisions (did every transfer lead to the statement the source says?).
"""
from bvf import diffrun, env, gen, progcheck, refmodel, render, runner, vmmon
from bvf.harness import sig
from bardolph.controller.script_job import ScriptJob
from bardolph.vm.vm_codes import JumpCondition, OpCode

ID = 'C05'
MANIFEST = {
    'category': 'exploration',
    'technique': 'VM step automata + whole-image structural invariant at the '
                 'loader hook + marker-trace reference, driven to edge coverage',
    'text': 'Per generated program the compiled image is checked as a whole at '
            'load time (every jump target by object identity against the '
            'pre-load program, no jump across a routine boundary, every JSR '
            'names a routine, LOOP/END_LOOP balance on all paths by data-flow) '
            'and then executed under per-instruction automata with scripted '
            'decision streams until every conditional jump was seen taken and '
            'not taken and every instruction ran (measured; uncoverable edges '
            'are listed as inconclusive edges). Edge-complete per program plus '
            'sampled path combinations, not all paths.'
            ' In 30 % of the programs unused value macros are defined ins'
            'ide branch, loop and routine bodies.'
            ' Scripts with a built-in that fails or a division by zero in'
            'side routines must either end there or carry on in source or'
            'der with every call left again.',
    'note': 'Trusted: vmmon automata, reference interpreter for the marker '
            'trace. Routine definitions nested in if/repeat bodies are taken '
            'as compile-time definitions (defined whether or not control '
            'reaches them).',
}
LEVEL = 'exploration'
SHARDS = {'quick': 16, 'thorough': 16}
N = {'quick': 1500, 'thorough': 60000}
TIMEOUT = {'quick': 900, 'thorough': 10800}
MAX_RUNS = 40
RULE = ('one case = one marker program compiled once and run with up to 40 '
        'decision assignments (every site 0, 1, 2, 3, then the decision in '
        'front of each conditional jump with a missing outcome is flipped in '
        'an assignment that reached it) until edge + instruction coverage is '
        'complete; evaluations = runs; non-trivial = programs with at least 3 '
        'conditional jumps; distinct = distinct (AST shape, tag set).')
ASSUMPTIONS = [
    'a `return` resumes directly after the call: at the END_CTX following the '
    'JSR or the instruction behind it',
    'nested routine definitions are compile-time',
]
PROFILE = gen.profile(
    len=(5, 28), depth=4, markers=True, choose_conds=1.0, choose_counts=0.7,
    nested_defs=0.12, const_conds=0.12, trace_loops=0, trace_vars=0,
    zero_cycle=True,
    w={'if': 16, 'repeat': 14, 'break': 8, 'call': 12, 'routine': 7,
       'return': 8, 'print': 1, 'assign': 2, 'setreg': 1, 'action': 1.5,
       'get': 0.2, 'units': 0.6, 'time': 0, 'time_at': 0, 'wait': 0.2,
       'printf': 0, 'define': 0.3, 'default': 0})


def image_size():
    return len(vmmon.LAST_LOAD.get('image') or [])


def insert_defines(prog, rng):
    """value macros nobody uses, defined inside the bodies of branches, loops
    and routines (also right after a `break`): a definition generates no
    control transfer, so every branch still leads where it led"""
    n = [0]

    def walk(stmts, inside):
        for st in list(stmts):
            if not isinstance(st, list) or not st:
                continue
            if st[0] == 'if':
                walk(st[2], True)
                if st[3]:
                    walk(st[3], True)
            elif st[0] == 'repeat':
                walk(st[3], True)
            elif st[0] == 'routine':
                walk(st[3], True)
        if inside:
            for _ in range(rng.choice([0, 0, 1, 1, 2])):
                n[0] += 1
                stmts.insert(rng.randint(0, len(stmts)),
                             ['define', 'zz_k{}'.format(n[0]), ['num', 5]])
    walk(prog, False)
    return n[0]


def run_case(ctx, i):
    rng = ctx.rng('c05', i)
    pop = gen.random_population(rng, 5)
    try:
        prog, tags, _ = gen.generate(rng, pop, PROFILE)
    except gen.TooBig:
        ctx.count('generator_too_big')
        return
    if rng.random() < 0.3:
        ctx.count('unused_macros_defined_inside_blocks',
                  insert_defines(prog, rng))
    text = render.canonical(render.tokens(prog, rng))
    diffrun.setup(pop)
    replay = {'script': text, 'population': pop, 'program': prog}
    try:
        job = ScriptJob.from_string(text)
    except Exception as ex:
        ctx.violation('compiler-crash', repr(ex) + ' | ' + text[:500], replay)
        return
    if job.program is None:
        ctx.violation('rejected:' + job.compile_errors.split(':', 1)[-1]
                      .strip()[:30], job.compile_errors + ' | ' + text[:600],
                      replay)
        return
    mon = vmmon.attach(job, step_limit=300000)
    cond_jumps = None
    site_of = {}
    reached_by = {}                 # id(jump) -> a stream under which it ran
    queue = [{'sites': {}, 'default': v} for v in (0, 1, 2, 3)]
    tried = set()
    covered = (0, 0)
    runs = 0
    failed = False
    while runs < MAX_RUNS and queue:
        st = queue.pop(0)
        key = repr(sorted(st['sites'].items())) + str(st['default'])
        if key in tried:
            continue
        tried.add(key)
        r = runner.run_script(text, st, job=job, mon=mon)
        runs += 1
        ctx.evaluations += 1
        out = diffrun.judge(prog, pop, st, r, hoist=True)
        out.text = text
        replay['decisions'] = st
        if out.verdict == diffrun.UNDECIDABLE:
            ctx.count('undecidable:' + out.detail[:40])
            continue
        if out.verdict != diffrun.OK:
            ctx.violation(diffrun.classify(out), '{} | decisions {} | script: {}'
                          .format(out.detail, st, text[:700]), dict(replay))
            failed = True
            break
        image = vmmon.LAST_LOAD['image']
        if cond_jumps is None:
            cond_jumps = []
            for j, x in enumerate(image):
                if x.op_code is OpCode.JUMP and x.param0 in (
                        JumpCondition.IF_FALSE, JumpCondition.IF_TRUE):
                    cond_jumps.append(id(x))
                    # `[choose k]` directly in front of the jump?
                    if j >= 4 and image[j - 2].op_code is OpCode.JSR \
                            and image[j - 2].param0 == 'choose' \
                            and image[j - 4].op_code is OpCode.MOVEQ:
                        site_of[id(x)] = (image[j - 4].param0, x.param0)
            n_inst = len(image)
            ids = {id(x) for x in image}
        for j in mon.run_jumps:
            reached_by.setdefault(j, st)
        edges = sum(len(mon.outcomes.get(j, ())) for j in cond_jumps)
        insts = len(mon.executed & ids)
        covered = max(covered, (edges, insts))
        if edges == 2 * len(cond_jumps) and insts == n_inst:
            break
        if not queue:
            # flip the decisions in front of jumps with a missing outcome
            for j in cond_jumps:
                seen = mon.outcomes.get(j, set())
                if len(seen) == 2 or j not in site_of or j not in reached_by:
                    continue
                k, cond = site_of[j]
                need_taken = True not in seen
                truth = need_taken == (cond is JumpCondition.IF_TRUE)
                base = reached_by[j]
                for vals in ([1 if truth else 0], [1, 0], [0, 1], [2, 0]):
                    new = {'sites': dict(base['sites']),
                           'default': base['default']}
                    new['sites'][k] = vals
                    queue.append(new)
            if not queue:
                break
    if failed or cond_jumps is None:
        ctx.sigs.add(sig(text))
        return
    ctx.count('programs')
    ctx.count('runs', runs)
    ctx.count('edges_total', 2 * len(cond_jumps))
    ctx.count('edges_covered', covered[0])
    ctx.count('source_decision_edges_total', 2 * len(site_of))
    ctx.count('source_decision_edges_covered',
              sum(len(mon.outcomes.get(j, ())) for j in site_of))
    ctx.count('instructions_total', n_inst)
    ctx.count('instructions_executed', covered[1])
    if covered[0] == 2 * len(cond_jumps) and covered[1] == n_inst:
        ctx.count('programs_fully_covered')
    else:
        ctx.count('programs_with_inconclusive_edges')
    for t in tags:
        ctx.count('tag:' + t)
    if len(cond_jumps) >= 3:
        ctx.sigs.add(sig([progcheck.shape(prog), sorted(tags)]))
    if i % 400 < ctx.nshards:
        ctx.sample({'script': text[:500], 'runs': runs,
                    'edges': '{}/{}'.format(covered[0], 2 * len(cond_jumps)),
                    'instructions': '{}/{}'.format(covered[1], n_inst)})


FAILING = ['[ asin 2 ]', '[ acos -3 ]', '[ sqrt -1 ]', '{ 1 / zero }',
           '{ 5 % zero }', '[ asin { 1 + 1 } ]']


def part_failing_calls(ctx):
    """a built-in that fails, or a division by zero, in the middle of a
    routine: what a script does after that is not laid down, but where control
    goes is -- either the run ends there, or it carries on in source order with
    every statement executed once and every call left again"""
    diffrun.setup([dict(label='A', group='G', location='P')])
    rng = ctx.rng('failing', ctx.shard)
    for _ in range(6 if ctx.tier == 'quick' else 60):
        bad = rng.choice(FAILING)
        shape = rng.randrange(4)
        if shape == 0:
            text = ('assign zero 0 define f begin print 1 assign x {} print 2 '
                    'end f print 3'.format(bad))
            ok = [[1], [1, 2, 3]]
        elif shape == 1:
            text = ('assign zero 0 define g begin print 1 assign x {} print 2 '
                    'return 7 end define f begin print 0 print [ g ] print 4 '
                    'end f print 5'.format(bad))
            ok = [[0, 1], [0, 1, 2, 7, 4, 5]]
        elif shape == 2:
            text = ('assign zero 0 define f with n begin print n assign x {} '
                    'print {{ n + 10 }} end repeat with i from 1 to 2 f i '
                    'print 9'.format(bad))
            ok = [[1], [1, 11, 2, 12, 9]]
        else:
            text = ('assign zero 0 define f begin repeat 2 begin print 1 '
                    'assign x {} print 2 end print 3 end f print 4'.format(bad))
            ok = [[1], [1, 2, 1, 2, 3, 4]]
        r = runner.run_script(text, budget=5000)
        ctx.case('F:' + text)
        got = [e[2] for e in r.log if e[0] == 'out' and e[1] == 'out']
        replay = {'part': 'failing-calls', 'script': text}
        if not r.accepted:
            ctx.violation('failing-call:rejected', r.errors.strip() + ' | ' +
                          text, replay)
        elif got not in ok:
            ctx.violation('failing-call:control-goes-astray',
                          'printed {} where the source allows {} | {}'.format(
                              got, ok, text), replay)
        elif r.leftovers and got == ok[1]:
            ctx.violation('failing-call:frames-left', '{} | {}'.format(
                r.leftovers[:2], text), replay)
        else:
            ctx.count('failing_calls_checked')


def run_shard(ctx):
    n = N[ctx.tier]
    part_failing_calls(ctx)
    for i in range(ctx.shard, n, ctx.nshards):
        run_case(ctx, i)


def finalize(merged):
    c = merged['counters']
    if not c.get('edges_covered') and not merged['violations']:
        merged['inconclusive'].append('no edge was observed')
    need = ['tag:routine-defined-in-if', 'tag:recursion', 'tag:return-in-loop',
            'tag:break-depth2']
    low = [k for k in need if c.get(k, 0) < 10]
    if low and not merged['violations']:
        merged['inconclusive'].append('shapes too rare: {}'.format(low))
    merged['coverage_extra'] = {
        'edge_coverage': '{}/{}'.format(c.get('edges_covered', 0),
                                        c.get('edges_total', 0)),
        'source_decision_edge_coverage': '{}/{}'.format(
            c.get('source_decision_edges_covered', 0),
            c.get('source_decision_edges_total', 0)),
        'note_on_edges': 'edges_total includes the compiler-generated tests '
        'inside loop prologues (count == 0, count < 0, unit mode == raw, '
        'count != 1), one outcome of which is usually infeasible for a given '
        'program; source_decision edges are the jumps directly governed by a '
        '[choose k] of the script',
        'instruction_coverage': '{}/{}'.format(
            c.get('instructions_executed', 0), c.get('instructions_total', 0)),
        'programs_fully_covered': c.get('programs_fully_covered', 0),
        'programs_with_inconclusive_edges':
            c.get('programs_with_inconclusive_edges', 0)}


def replay(doc):
    r = doc['replay']
    diffrun.setup(r['population'])
    run = runner.run_script(r['script'], r.get('decisions'), monitor=True)
    out = diffrun.judge(r['program'], r['population'], r.get('decisions'), run,
                        hoist=True)
    print(r['script'])
    print(out)
    return 0 if out.verdict in (diffrun.OK, diffrun.UNDECIDABLE) else 1
