"""C14 -- switching units re-expresses settings without changing what the
lights get.

Metamorphic monitor: script A sets registers in mode m0 and then transmits
(`set`, `on`, `wait`); script B is A with a chain of 1-4 `units` statements
inserted in front of the transmission.  The device/clock event logs of A and
B must agree: colour within one raw unit (compared as colours when rgb is
involved), duration within 1 ms, identical delay request, kelvin unchanged.
Register monitor: all nine settings are printed (printf) before and after
every switch; a setting outside the manual's rewrite table must be unchanged
bit for bit, one inside it must denote the same colour / time, kelvin is
never altered and a switch to the mode in force changes nothing.
"""
import itertools
from fractions import Fraction as F

from bvf import env, oracle, simnet
from bvf.oracle import lit
from bvf.runner import run_script

ID = 'C14'
MANIFEST = {
    'category': 'exploration',
    'technique': 'metamorphic relation between two device/clock event logs + '
                 "register print-outs checked against the manual's rewrite table",
    'text': 'Register contents on a grid inside the documented ranges (hue '
            '0..360, percentages 0..100, raw 0..65535, times >= 0, fractional '
            'kelvin), all six transitions and all chains of up to four '
            'transitions are run twice (with and without the chain); the '
            'transmitted colour, duration and delay must agree within one raw '
            'unit / 1 ms, and the nine settings printed around every switch '
            'must follow the rewrite table. Chains are enumerated, register '
            'grids sampled.'
            ' In a quarter of the cases the registers are filled by expre'
            'ssions instead of constants.'
            ' In 6 % of the cases a get that the light does not answer st'
            'ands before the final set.',
    'note': 'Trusted: rational conversion oracle (bvf/oracle.py). Colours are '
            'compared componentwise (hue on the circle, ignored when '
            'saturation or brightness is 0) or, when rgb is involved, by RGB '
            'distance.',
}
LEVEL = 'exploration'
SHARDS = {'quick': 16, 'thorough': 16}
N = {'quick': 20000, 'thorough': 1000000}
TIMEOUT = {'quick': 900, 'thorough': 10800}
RULE = ('one case = (initial mode, register tuple, chain of 1-4 modes); all '
        '3 x (3+9+27+81) chains are used round-robin; non-trivial = the chain '
        'contains at least one real transition; distinct = distinct (mode, '
        'registers, chain).')
ASSUMPTIONS = [
    'registers stay inside the documented ranges',
    '"within one raw unit" is applied per component (hue circular); with '
    'rgb involved in the chain, alternatively to the RGB distance (<= 2 '
    'units), a grey having no hue to keep',
]
MODES = ['logical', 'raw', 'rgb']
ALL9 = ['time', 'duration', 'hue', 'saturation', 'brightness', 'red', 'green',
        'blue', 'kelvin']
FMT = 'printf "' + ' '.join('{' + r + '!r}' for r in ALL9) + '"'
NO_TIME = [r for r in ALL9 if r != 'time']
FMT_NO_TIME = 'printf "' + ' '.join('{' + r + '!r}' for r in NO_TIME) + '"'
REWRITE = {
    ('logical', 'raw'): {'time', 'duration', 'hue', 'saturation', 'brightness'},
    ('raw', 'logical'): {'time', 'duration', 'hue', 'saturation', 'brightness'},
    ('rgb', 'raw'): {'time', 'duration', 'hue', 'saturation', 'brightness'},
    ('raw', 'rgb'): {'time', 'duration', 'red', 'green', 'blue'},
    ('rgb', 'logical'): {'hue', 'saturation', 'brightness'},
    ('logical', 'rgb'): {'red', 'green', 'blue'},
}
CHAINS = [c for n in (1, 2, 3, 4) for c in itertools.product(MODES, repeat=n)]
DEVICES = [dict(label='A', group='G', location='P')]


def registers(rng, mode):
    def pick(grid, lo, hi, integer=False):
        r = rng.random()
        if r < 0.35:
            return rng.choice(grid)
        if integer:
            return rng.randint(lo, hi)
        return round(rng.uniform(lo, hi), rng.choice([0, 1, 2, 4]))
    regs = {}
    if mode == 'raw':
        g = [0, 1, 32767, 32768, 65534, 65535]
        regs['hue'] = pick(g, 0, 65535, True)
        regs['saturation'] = pick(g, 0, 65535, True)
        regs['brightness'] = pick(g, 0, 65535, True)
        regs['duration'] = pick([0, 1, 999, 1500, 60000], 0, 100000, True)
        regs['time'] = pick([0, 1, 250, 1000], 0, 5000, True)
    else:
        if mode == 'logical':
            regs['hue'] = pick([0, 360, 180, 120, 359.99, 0.01], 0, 360)
            regs['saturation'] = pick([0, 100, 50, 0.01], 0, 100)
            regs['brightness'] = pick([0, 100, 50, 99.99], 0, 100)
        else:
            regs['red'] = pick([0, 100, 50], 0, 100)
            regs['green'] = pick([0, 100, 50], 0, 100)
            regs['blue'] = pick([0, 100, 25], 0, 100)
        regs['duration'] = pick([0, 0.001, 1.5, 60], 0, 100)
        regs['time'] = pick([0, 0.001, 0.25, 2], 0, 5)
    regs['kelvin'] = pick([2500.5, 2700, 0, 9000, 1500, 3500.25], 1500, 9000)
    return regs


def setup_text(mode, regs, braced=False):
    # braced: every number is written as an expression (the register is then
    # filled from the evaluation stack, not by a move of a constant)
    def num(v):
        return '{ ' + lit(v) + ' }' if braced else lit(v)
    return 'units {} '.format(mode) + ' '.join(
        '{} {}'.format(k, v if isinstance(v, str) else num(v))
        for k, v in regs.items())


def transmitted(run):
    col = dur = delay = None
    pdur = None
    for e in run.log:
        if e[0] == 'dev' and e[2] == 'set_color' and col is None:
            col, dur = e[3][0], e[3][1]
        elif e[0] == 'dev' and e[2] == 'set_power':
            pdur = e[3][1]
        elif e[0] == 'clock' and e[1] == 'pause_for' and delay is None:
            delay = e[2][0]
    return col, dur, pdur, delay


def colours_agree(a, b, rgb_involved):
    if a[3] != b[3]:
        return False
    # (between logical and raw units the hue is a plain re-scaling, whatever
    # the saturation; only a colour that went through rgb has no hue to keep
    # when it is a grey)
    comp = abs(a[1] - b[1]) <= 1 and abs(a[2] - b[2]) <= 1 and (
        oracle.hue_dist(a[0], b[0]) <= 1 or (rgb_involved and (
            min(a[1], b[1]) == 0 or min(a[2], b[2]) == 0)))
    if comp:
        return True
    if rgb_involved:
        return oracle.same_colour(a, b, 2)
    return False


def parse_regs(text, names=ALL9):
    vals = text.split(' ')
    if len(vals) != len(names):
        return None
    try:
        return {k: (float(v) if '.' in v or 'e' in v else int(v))
                for k, v in zip(names, vals)}
    except ValueError:
        return None


def raw_of(mode, r):
    if mode == 'rgb':
        return oracle.ideal_color('rgb', r['red'], r['green'], r['blue'], 0)[:3]
    return oracle.ideal_color(mode, r['hue'], r['saturation'],
                              r['brightness'], 0)[:3]


def same_raw(a, b, rgb_involved):
    comp = abs(a[1] - b[1]) <= 1 and abs(a[2] - b[2]) <= 1 and (
        oracle.hue_dist(a[0], b[0]) <= 1 or (rgb_involved and (
            min(a[1], b[1]) <= 1 or min(a[2], b[2]) <= 1)))
    if comp:
        return True
    if not rgb_involved:
        return False
    ia = [int(round(x)) for x in a] + [0]
    ib = [int(round(x)) for x in b] + [0]
    return oracle.same_colour(ia, ib, 3)


def check_switch(ctx, frm, to, before, after, replay, script):
    """register rewrite table for one `units` statement"""
    ALL9 = list(before)         # (without `time` while it holds a pattern)
    if frm == to:
        for k in ALL9:
            if repr(before[k]) != repr(after[k]):
                ctx.violation('table:same-mode-changed:' + k,
                              'units {} while in {}: {} {!r} -> {!r} | {}'
                              .format(to, frm, k, before[k], after[k], script),
                              replay)
                return False
        ctx.count('switch:same')
        return True
    rewritten = REWRITE[(frm, to)]
    for k in ALL9:
        if k not in rewritten and repr(before[k]) != repr(after[k]):
            ctx.violation(
                'table:{}>{}:{}-changed'.format(frm, to, k),
                'units {} -> {}: {} {!r} became {!r} (not in the rewrite '
                'table) | {}'.format(frm, to, k, before[k], after[k], script),
                replay)
            return False
    if 'time' in rewritten:
        f = 1000 if to == 'raw' else F(1, 1000)
        for k in ('time', 'duration'):
            if k not in before:
                continue
            want = oracle.frac(before[k]) * f
            tol = 1 if to == 'raw' else F(1, 1000)
            if abs(oracle.frac(after[k]) - want) > tol:
                ctx.violation('table:{}>{}:{}-value'.format(frm, to, k),
                              '{} {!r} became {!r} | {}'.format(
                                  k, before[k], after[k], script), replay)
                return False
    try:
        a, b = raw_of(frm, before), raw_of(to, after)
    except Exception as ex:
        ctx.violation('table:unreadable', repr(ex) + ' | ' + script, replay)
        return False
    if not same_raw(a, b, 'rgb' in (frm, to)):
        ctx.violation(
            'table:{}>{}:colour-value'.format(frm, to),
            'after units {} -> {} the registers denote raw {} instead of {} | {}'
            .format(frm, to, [round(float(x), 1) for x in b],
                    [round(float(x), 1) for x in a], script), replay)
        return False
    ctx.count('switch:{}>{}'.format(frm, to))
    return True


def one_case(ctx, i, rng):
    m0 = MODES[i % 3]
    chain = CHAINS[(i // 3) % len(CHAINS)]
    regs = registers(rng, m0)
    fmt, names = FMT, ALL9
    if rng.random() < 0.12:
        # the time register holds a time-of-day pattern during the switches
        del regs['time']
        regs['time at'] = '8:00'
        fmt, names = FMT_NO_TIME, NO_TIME
        ctx.count('cases_with_pattern_in_time_register')
    braced = rng.random() < 0.25
    if braced:
        ctx.count('cases_with_registers_set_by_expressions')
    setup = setup_text(m0, regs, braced)
    if m0 == 'logical' and rng.random() < 0.5:
        # logical units are what a script starts in: no need to say so
        setup = setup[len('units logical '):]
    tail = ' set "A" on "A" wait'
    silent_get = rng.random() < 0.06
    if silent_get:
        # a `get` from a light that does not answer, after the switches: what
        # it leaves in the registers does not depend on the units in force
        tail = ' get "A"' + tail
        ctx.count('cases_with_an_unanswered_get')
    script_a = setup + tail
    # a switch may be reached through a routine, a branch or a loop body, so
    # that the `units` command executed last is not the one written last
    defs, steps = [], []
    for k, m in enumerate(chain):
        form = rng.choice(['plain', 'plain', 'plain', 'routine', 'if', 'loop',
                           'dead-branch'])
        if form == 'routine':
            defs.append('define sw{} begin units {} end'.format(k, m))
            steps.append('sw{}'.format(k))
        elif form == 'if':
            steps.append('if {{ 1 }} begin units {} end'.format(m))
        elif form == 'loop':
            steps.append('repeat 1 begin units {} end'.format(m))
        elif form == 'dead-branch':
            other = rng.choice(MODES)
            steps.append('if {{ 0 }} begin units {} end units {}'.format(
                other, m))
        else:
            steps.append('units ' + m)
        if form != 'plain':
            ctx.count('switches_through_' + form)
    script_b = ' '.join(defs + [setup, fmt]) + ''.join(
        ' {} {}'.format(s, fmt) for s in steps) + tail
    replay = {'script_a': script_a, 'script_b': script_b}
    modes = [m0] + list(chain)
    real = any(x != y for x, y in zip(modes, modes[1:]))
    ctx.case('C:{}:{}:{}'.format(m0, sorted(regs.items()), chain),
             nontrivial=real)
    if silent_get:
        simnet.set_plan(simnet.FaultPlan(silent={('A', 'get_color')}))
    try:
        ra = run_script(script_a)
        if silent_get:
            simnet.set_plan(simnet.FaultPlan(silent={('A', 'get_color')}))
        rb = run_script(script_b, keep_job=True)
    finally:
        simnet.set_plan(None)
    for r, s in ((ra, script_a), (rb, script_b)):
        if not r.accepted:
            ctx.violation('rejected', r.errors.strip() + ' | ' + s, replay)
            return
        if r.stops:
            ctx.violation('abort:' + str(r.stops[0][1]), '{} | {}'.format(
                r.stops[0][:3], s), replay)
            return
    ca, da, pa, wa = transmitted(ra)
    cb, db, pb, wb = transmitted(rb)
    rgb = 'rgb' in modes
    if ca is None or cb is None:
        ctx.violation('no-set-event', script_b, replay)
        return
    if not colours_agree(ca, cb, rgb):
        ctx.violation('metamorphic:colour' + (':kelvin' if ca[3] != cb[3]
                                              else ''),
                      'without the switch {} with {} | {}'.format(
                          ca, cb, script_b), replay)
        return
    if abs(da - db) > 1 or abs(pa - pb) > 1:
        ctx.violation('metamorphic:duration',
                      'duration without the switch {}/{} with {}/{} | {}'
                      .format(da, pa, db, pb, script_b), replay)
        return
    if (wa is None) != (wb is None) or (
            wa is not None and abs(wa - wb) > 0.001 + 1e-9):
        ctx.violation('metamorphic:delay',
                      'delay without the switch {} with {} | {}'.format(
                          wa, wb, script_b), replay)
        return
    ctx.count('pairs_agree')
    if i % 5 == 2 and not silent_get:
        # the same job once more: it starts from the same settings as the
        # first time, whatever units the first run ended in
        rc = run_script(script_b, job=rb.job)
        if rc.stops or transmitted(rc) != transmitted(rb):
            ctx.violation('metamorphic:second-run-differs',
                          'first run sent {}, the second run of the same job '
                          '{} {} | {}'.format(transmitted(rb), transmitted(rc),
                                              rc.stops[:1], script_b), replay)
            return
        ctx.count('second_runs_agree')
    outs = [e[2] for e in rb.log if e[0] == 'out' and e[1] == 'out']
    snaps = [parse_regs(o, names) for o in outs]
    if len(snaps) != len(chain) + 1 or None in snaps:
        ctx.violation('table:unreadable', 'register print-outs {} | {}'.format(
            outs[:3], script_b), replay)
        return
    for k, (frm, to) in enumerate(zip(modes, modes[1:])):
        if not check_switch(ctx, frm, to, snaps[k], snaps[k + 1], replay,
                            script_b):
            return
    if i % 4000 < ctx.nshards:
        ctx.sample({'without': script_a, 'with': script_b, 'sent': cb})


def run_shard(ctx):
    env.configure(simnet.make_devices(DEVICES))
    n = N[ctx.tier]
    for i in range(ctx.shard, n, ctx.nshards):
        one_case(ctx, i, ctx.rng('c14', i))
    if ctx.shard == 0:
        # a time-of-day wait pending while the units are switched
        for m in MODES:
            for to in MODES:
                s = 'units {} time at 8:00 units {} on "A" print 1'.format(m, to)
                r = run_script(s)
                ctx.case('P:' + s)
                waits = [e for e in r.log if e[0] == 'clock'
                         and e[1] == 'wait_until']
                if not r.accepted or r.stops or len(waits) != 1:
                    ctx.violation('pattern-in-time-register',
                                  '{} -> accepted={} {} waits={}'.format(
                                      s, r.accepted, r.stops[:1], len(waits)),
                                  {'script_b': s})


def finalize(merged):
    c = merged['counters']
    need = ['switch:{}>{}'.format(a, b) for a in MODES for b in MODES if a != b]
    low = [k for k in need + ['switch:same', 'pairs_agree'] if not c.get(k)]
    if low and not merged['violations']:
        merged['inconclusive'].append('never observed: {}'.format(low))


def replay(doc):
    env.configure(simnet.make_devices(DEVICES))
    r = doc['replay']
    for key in ('script_a', 'script_b'):
        if key in r:
            run = run_script(r[key])
            print(r[key])
            print('  sent', transmitted(run), 'stops', run.stops[:1])
            for e in run.log:
                if e[0] == 'out' and e[1] == 'out':
                    print('  regs', e[2])
    return 0
