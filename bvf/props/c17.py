"""C17 -- compiles and runs are independent of what was compiled or run before.

P  one Parser object receives a sequence of 2-8 texts (valid generated
   programs mixed with texts rejected at arbitrary token positions: inside
   loops, routines, matrix blocks, expressions).  For every text the result
   on the used parser (accept/reject, diagnostics, instruction listing) must
   equal the result on a fresh parser.
J  one ScriptJob is executed two or three times: complete, stopped at a
   random instruction (ScriptJob.request_stop from the step monitor), then
   complete again.  Every complete execution must produce the event log of
   the first one; the compiled program's fingerprint must not change.
N  two jobs back to back with the production stdout sink: the second job's
   device/clock log and stdout text must equal those of the second job alone.
"""
import sys

from bvf import diffrun, env, gen, refmodel, render, simnet, vmmon
from bvf.harness import sig
from bvf.runner import run_script
from bvf.props.c19 import Tee
from bardolph.controller.script_job import ScriptJob
from bardolph.parser.parse import Parser

ID = 'C17'
MANIFEST = {
    'category': 'exploration',
    'technique': 'differential against fresh objects (parser, job) + program '
                 'fingerprint before/after execution',
    'text': 'Sequences of compile requests mixing valid and truncated/mutated '
            'texts on one compiler object are compared, request by request, '
            'with fresh compilers; jobs are executed repeatedly with stops '
            'injected at random instruction counts and every complete run must '
            'reproduce the first event log; pairs of jobs are run back to back '
            'with the production output sink and the second must behave as it '
            'does alone; two to four jobs (one of them possibly rejected) are '
            'compiled first and executed afterwards, in order or shuffled, and '
            'each must do what its script does as the only job. Sampled '
            'histories.'
            ' Blank and comment-only texts are loaded and executed on the'
            ' reused job in between, often after a stop request made whil'
            'e it was idle.'
            ' Populations of 18-70 lights with loops left early; an unins'
            'pected job is run beside the monitored one and queued jobs r'
            'un twice.',
    'note': 'Trusted: equality of event logs / instruction fingerprints as the '
            'notion of "same result". Device state is reset between runs '
            '(replies to `get` are part of the environment, not of the job).',
}
LEVEL = 'exploration'
SHARDS = {'quick': 16, 'thorough': 16}
N = {'quick': 2000, 'thorough': 100000}
TIMEOUT = {'quick': 900, 'thorough': 10800}
RULE = ('P: one case = one sequence of 2-8 compile requests on one Parser; '
        'J: one case = one job executed 3 times (complete, stopped at a '
        'random step, complete); N: one case = an ordered pair of jobs; Q: one '
        'case = 2-4 jobs compiled first and executed later; '
        'non-trivial: P sequences containing both an accepted and a rejected '
        'text, J/N jobs producing at least 3 events; distinct = distinct '
        'texts.')
ASSUMPTIONS = [
    'the simulated devices are put back into their initial state before every '
    'run (what a light replies to `get` is environment)',
]
PROFILE = gen.profile(len=(3, 20), depth=3, w={'time_at': 2.5})


def compile_result(parser, text):
    try:
        ok = parser.parse(text)
    except Exception as ex:
        return ('exception', type(ex).__name__, None)
    if ok:
        return (True, '', vmmon.fingerprint(parser.get_program()))
    return (bool(ok), parser.get_errors(), None)


def broken(rng, toks):
    toks = list(toks)
    k = rng.random()
    if k < 0.6 and len(toks) > 2:
        cut = rng.randint(1, len(toks) - 1)
        toks = toks[:cut]
        if rng.random() < 0.5:
            toks.append(rng.choice(['}', ']', 'end', 'begin', '{', 'stage',
                                    'zz_undefined', ')', 'with']))
    elif k < 0.8:
        toks.insert(rng.randrange(len(toks) + 1),
                    rng.choice(['}', ']', 'end', 'zz_undefined', 'break',
                                'return', 'else']))
    else:
        toks = toks + ['set', '"Candle"', 'begin', 'stage', 'row', '1',
                       rng.choice(['zz_undefined', ']', 'set'])]
    return ' '.join(toks)


WORDS = set('''all and as assign at begin break column cycle default define
else end from get group if in location logical off on or pause print printf
println raw repeat return rgb row set stage to units wait while with zone hue
saturation brightness kelvin red green blue duration time H S B K round trunc
floor ceil sqrt sin cos tan asin acos atan random choose not breakpoint
'''.split())
PROBES = ['break', 'return', 'return 5', 'stage row 0', 'end', 'else print 1',
          'print 1 break', 'if 1 break', 'repeat 2 begin print 1 end break',
          'define zz_r begin return 1 end print [ zz_r ]',
          'define zz_r with zz_p print zz_p print zz_p',
          'set "Candle" begin stage row 0 end stage row 1',
          'repeat with zz_i from 1 to 3 print zz_i print zz_i',
          'print 1 end', 'print { 1 + 2 } }', 'print 1 ]', 'hue 5 set all',
          # one macro name bound to another pattern (or to nothing) by the
          # next text
          'define zz_alarm 7:15 time at zz_alarm on all',
          'define zz_alarm 22:40 time at zz_alarm off all',
          'define zz_alarm 1*:*5 time at zz_alarm or 6:00 on all',
          'time at zz_alarm on all', 'define zz_alarm 5 time zz_alarm on all',
          'define zz_alarm 7:15 time at zz_alarm on all']


def probe(rng, prev_toks):
    """a short text whose verdict would change if anything were left over
    from the previous request (loop, routine or matrix context, symbols,
    pending jumps)"""
    r = rng.random()
    names = sorted({t for t in prev_toks if t.isidentifier()
                    and t not in WORDS}) if prev_toks else []
    if r < 0.6 or not names:
        return rng.choice(PROBES)
    n = rng.choice(names)
    return rng.choice(['print {}', 'define {} 5 print {}', '{}', '[ {} ]',
                       'assign {} 3 print {}', 'hue {}',
                       'define {} with zz_a print zz_a {} 1']).replace('{}', n)


def part_parser(ctx, i):
    rng = ctx.rng('parser', i)
    pop = gen.random_population(rng, 4)
    texts = []
    toks = []
    long_run = rng.random() < 0.08
    if long_run:
        ctx.count('long_sequences')
    for _ in range(rng.randint(40, 120) if long_run else rng.randint(2, 8)):
        if long_run and texts and rng.random() < 0.85:
            # mostly short texts, many of them leaving a block open
            texts.append(rng.choice([
                probe(rng, toks), 'repeat 2 begin print 1',
                'define zz_r begin print 1', 'if 1 begin print 2 end else begin',
                'set "Candle" begin stage row 1', 'repeat 2 begin print 1 end',
                'if { 1 } begin print 1 end', 'print { ( 1 + 2 }',
                'repeat begin if 1 begin repeat 2 begin print', 'hue 5 set all']))
            continue
        if texts and rng.random() < 0.25:
            texts.append(probe(rng, toks))
            ctx.count('probe_texts')
            continue
        try:
            prog, _, _ = gen.generate(rng, pop, PROFILE)
        except gen.TooBig:
            continue
        toks = [str(t) for t in render.tokens(prog, rng)]
        if rng.random() < 0.5:
            texts.append(' '.join(toks))
        else:
            texts.append(broken(rng, toks))
    if len(texts) < 2:
        return
    used = Parser()
    verdicts = []
    for k, text in enumerate(texts):
        got = compile_result(used, text)
        want = compile_result(Parser(), text)
        verdicts.append(want[0])
        ctx.count('compile_requests')
        if got != want:
            if got[0] != want[0]:
                what = 'result {} on the used compiler, {} on a fresh one'.format(
                    got[0], want[0])
                mech = 'parser:verdict'
            elif got[1] != want[1]:
                what = 'diagnostics {!r} vs {!r}'.format(got[1][:120],
                                                         want[1][:120])
                mech = 'parser:diagnostics'
            else:
                what = 'different program'
                mech = 'parser:program'
            prev = 'accepted' if (k and verdicts[k - 1] is True) else 'rejected'
            ctx.violation(
                '{}:after-{}'.format(mech, prev),
                'request #{} of {}: {} | previous: {!r} | this: {!r}'.format(
                    k, len(texts), what, texts[k - 1][-160:] if k else None,
                    text[:200]),
                {'part': 'parser', 'texts': texts})
            break
    ctx.case('P:' + sig(texts),
             nontrivial=True in verdicts and False in verdicts)
    # the same texts through one ScriptJob (load_string + execute)
    diffrun.setup(pop)
    used_job = ScriptJob()
    for k, text in enumerate(texts):
        want_prog = compile_result(Parser(), text)[2]
        blank_before = k > 0 and rng.random() < 0.15
        if blank_before:
            # a text that compiles to nothing (blank, a comment) is a run like
            # any other: it starts from a clean slate and uses up a stop
            # request that arrived while the job was idle
            stop_first = rng.random() < 0.6
            if stop_first:
                used_job.request_stop()
            try:
                used_job.load_string(rng.choice(['', '   ', '# nothing\n',
                                                 '\n\n', '#']))
                env.reset_monitors()
                used_job.execute()
            except Exception as ex:
                ctx.violation('job-reload:blank-text-raised', repr(ex),
                              {'part': 'job-reload', 'texts': texts})
                break
            ctx.count('blank_texts_executed' + (
                '_after_idle_stop' if stop_first else ''))
        try:
            used_job.load_string(text)
        except Exception as ex:
            ctx.violation('job-reload:raised', '{!r} | {!r}'.format(
                ex, text[:200]), {'part': 'job-reload', 'texts': texts})
            break
        have = None if used_job.program is None else \
            vmmon.fingerprint(used_job.program)
        if (have is None) != (want_prog is None) or (
                have is not None and have != want_prog):
            prev = 'accepted' if (k and verdicts[k - 1] is True) else 'rejected'
            ctx.violation(
                'job-reload:program:after-' + prev,
                'load_string #{} on a used job leaves {} where a fresh job has '
                '{} | this: {!r}'.format(
                    k, 'no program' if have is None else
                    'a program of {} instructions'.format(len(have)),
                    'no program' if want_prog is None else
                    'a program of {} instructions'.format(len(want_prog)),
                    text[:200]), {'part': 'job-reload', 'texts': texts})
            break
        if want_prog is None:
            # a rejected text must not leave anything that runs
            env.reset_monitors()
            used_job.execute()
            evs = [e for e in simnet.LOG if e[0] in ('dev', 'lan', 'out')
                   and e[1] != 'flush']
            if evs:
                ctx.violation('job-reload:rejected-text-runs',
                              'after a rejected load_string execute() produced '
                              '{} | {!r}'.format(evs[:2], text[:200]),
                              {'part': 'job-reload', 'texts': texts})
                break
        elif k and (blank_before or rng.random() < 0.5):
            # an accepted text runs on the used job exactly as on a fresh one
            # (bounded: generated programs are finite, probes are short)
            reset_devices(pop)
            ru = run_script(text, [1, 0, 1], job=used_job, budget=20000)
            reset_devices(pop)
            rf = run_script(text, [1, 0, 1], budget=20000)
            if not (ru.budget_exhausted or rf.budget_exhausted):
                a = refmodel.stream_of(ru.log)
                b = refmodel.stream_of(rf.log)
                if repr(a) != repr(b) or bool(ru.stops) != bool(rf.stops):
                    d = next((j for j, (x, y) in enumerate(zip(a, b))
                              if repr(x) != repr(y)), min(len(a), len(b)))
                    ctx.violation(
                        'job-reload:runs-differently',
                        'load_string #{} on a used job, then execute: event {} '
                        'is {} where a fresh job has {} | this: {!r}'.format(
                            k, d, a[d] if d < len(a) else None,
                            b[d] if d < len(b) else None, text[:200]),
                        {'part': 'job-reload', 'texts': texts})
                    break
                ctx.count('reloaded_jobs_executed')
        ctx.count('job_reloads')


def reset_devices(pop):
    for dev, d in zip(simnet.SimLan.devices, pop):
        dev.color = list(d.get('color') or [0, 0, 0, 0])
        dev.power = d.get('power', 0)
        dev.zones = [[0, 0, 0, 0] for _ in dev.zones]
        dev.cells = [[0, 0, 0, 0] for _ in dev.cells]


# scripts in which one name is a macro *and*, elsewhere, a parameter, a local
# or a named printf field: whatever the first run does with them, a later
# run of the same job does the same
OVERLAPS = [
    'define show with m begin print m assign m {{ m + 1 }} print m end '
    'define m {v} show 75 print m printf "{{m}} {{}}" m',
    'define f with v begin print v end define v {v} f 9 print v hue v '
    'set all',
    'define g begin assign t 3 print t end define t {v} g print t '
    'printf "{{t}}" g',
    'assign z 4 define h with q begin assign z {{ q + z }} return z end '
    'define q {v} print [ h 2 ] print [ h q ] print z printf "{{q}} {{z}}"',
    'define lamp "Top" define look with lamp begin on lamp print lamp end '
    'look "{name}" look lamp on lamp',
    'define n {v} repeat 2 begin define w with n begin print n end w 1 end '
    'print n',
    # one pattern macro in several `time at` statements, alone and with `or`
    'define noon 12:00 time at noon on "{name}" time at noon or 18:30 '
    'off "{name}" time at 18:30 or noon on all',
    'define tea 16:*0 repeat 2 begin time at tea or 9:15 wait time at tea '
    'wait end',
]


def part_job(ctx, i):
    rng = ctx.rng('job', i)
    pop = gen.random_population(rng, 5)
    try:
        prog, tags, dec = gen.generate(rng, pop, PROFILE)
    except gen.TooBig:
        return
    text = render.canonical(render.tokens(prog, rng))
    big = rng.random() < 0.06
    if big:
        # many lights, and a loop over them that is left early: what the loop
        # had still to visit is discarded, and the next run starts afresh
        n = rng.choice([18, 24, 40, 70])
        pop = [{'label': 'L{:02d}'.format(k), 'group': 'G{}'.format(k % 2),
                'location': 'Hall', 'kind': 'plain', 'color': [k, k, k, 2700],
                'power': 0} for k in range(n)]
        text = rng.choice([
            # (nothing is calculated after the early exit in the first three:
            # whatever the exit leaves behind shows in the *next* run)
            'repeat all as zz_l begin set zz_l break end set all print 7',
            'define first begin repeat all as zz_l begin on zz_l return 5 end '
            'end first off all print 8',
            'repeat in group "G0" and group "G1" as zz_l begin on zz_l break '
            'end set all',
            'repeat all as zz_l begin set zz_l break end set all print {{ 1 + 2 }}',
            'define first begin repeat all as zz_l begin on zz_l return 5 end '
            'end print [ first ] off all print {{ 2 * 3 }}',
            'repeat in location "Hall" as zz_l with zz_b from 0 to 100 begin '
            'brightness zz_b set zz_l if {{ zz_b > {cut} }} break end '
            'print {{ 4 + 4 }} on group "G1"',
            'repeat {reps} begin repeat all as zz_l begin set zz_l break end '
            'end print 7 set all',
        ]).format(cut=rng.choice([0, 5, 50]), reps=rng.choice([1, 2, 3]))
        dec = []
        ctx.count('jobs_leaving_a_big_loop_early')
    elif rng.random() < 0.12:
        text = rng.choice(OVERLAPS).format(
            v=rng.choice([5, 40, 2.5]),
            name=pop[0]['label'] if pop else 'Nobody')
        dec = []
        ctx.count('jobs_with_overlapping_names')
    elif rng.random() < 0.5:
        # starts by using every setting as it finds it, ends leaving settings
        # behind that the next run must not see
        text = ('set all on all printf "{hue} {saturation} {brightness} '
                '{kelvin} {duration} {time}" ' + text + ' ' + rng.choice([
                    'units raw', 'units rgb', 'units raw hue 40000 duration 7',
                    'hue 200 saturation 90 duration 3 time 2',
                    'units rgb red 10 green 20 blue 30 time 1',
                    'time at 8:00', 'set default', 'print 1', 'println 2',
                    'printf "x"', 'assign zz_left 5 define zz_m 6']))
        ctx.count('jobs_with_dirty_tail')
    diffrun.setup(pop)
    r1 = run_script(text, dec, monitor=True, keep_job=True)
    if not r1.accepted or r1.stops or r1.budget_exhausted:
        return                        # judged by C01/C06
    job, mon = r1.job, r1.mon
    first = repr(refmodel.stream_of(r1.log))
    if rng.random() < 0.3:
        # the monitored job (its program has been read, fingerprinted and
        # instrumented) does what a job nobody looked at does
        reset_devices(pop)
        r0 = run_script(text, dec)
        if not r0.budget_exhausted and not r0.stops and \
                repr(refmodel.stream_of(r0.log)) != first:
            ctx.violation('job:inspection-changes-run',
                          'a job whose program was read before its first run '
                          'produced {} event(s), an untouched job {} | {}'
                          .format(len(refmodel.stream_of(r1.log)),
                                  len(refmodel.stream_of(r0.log)), text[:300]),
                          {'part': 'job', 'script': text, 'population': pop,
                           'decisions': dec})
            return
        ctx.count('untouched_jobs_compared')
        reset_devices(pop)
    steps = mon.steps
    replay = {'part': 'job', 'script': text, 'population': pop,
              'decisions': dec}
    ctx.case('J:' + sig(text), nontrivial=len(r1.log) >= 3)
    plan = [None, rng.randint(1, max(1, steps)), None]
    if rng.random() < 0.3:
        plan = [rng.randint(1, max(1, steps)), None,
                rng.randint(1, max(1, steps)), None]
    for k, stop_at in enumerate(plan):
        reset_devices(pop)
        r = run_script(text, dec, job=job, mon=mon, stop_at=stop_at)
        ctx.count('executions')
        if r.fp_changed:
            ctx.violation('job:program-changed',
                          'execution #{} altered the compiled program | {}'
                          .format(k + 2, text[:500]), replay)
            return
        if stop_at is not None:
            ctx.count('stopped_runs')
            continue
        got = repr(refmodel.stream_of(r.log))
        if r.stops or got != first:
            a, b = refmodel.stream_of(r.log), refmodel.stream_of(r1.log)
            d = next((j for j, (x, y) in enumerate(zip(a, b))
                      if repr(x) != repr(y)), min(len(a), len(b)))
            after = 'stop' if k and plan[k - 1] is not None else 'completion'
            ctx.violation(
                'job:rerun-differs:after-' + after,
                'execution #{} differs from the first at event {}: {} vs {} {}'
                ' | {}'.format(k + 2, d, a[d] if d < len(a) else None,
                               b[d] if d < len(b) else None, r.stops[:1],
                               text[:500]), replay)
            return
        ctx.count('reruns_equal')
    if rng.random() < 0.25:
        # a stop request that arrives while the job is not running at all:
        # the next run may be cut short by it, the one after that is complete
        job.request_stop()
        reset_devices(pop)
        run_script(text, dec, job=job, mon=mon)
        reset_devices(pop)
        r = run_script(text, dec, job=job, mon=mon)
        ctx.count('executions', 2)
        got = repr(refmodel.stream_of(r.log))
        if r.stops or got != first:
            a, b = refmodel.stream_of(r.log), refmodel.stream_of(r1.log)
            d = next((j for j, (x, y) in enumerate(zip(a, b))
                      if repr(x) != repr(y)), min(len(a), len(b)))
            ctx.violation(
                'job:rerun-differs:after-idle-stop',
                'the second execution after a stop request made while the job '
                'was idle differs from the first complete run at event {}: {} '
                'vs {} {} | {}'.format(d, a[d] if d < len(a) else None,
                                       b[d] if d < len(b) else None,
                                       r.stops[:1], text[:500]), replay)
            return
        ctx.count('reruns_equal_after_idle_stop')


def run_with_stdout(text, dec, pop, stop_at=None):
    reset_devices(pop)
    saved = sys.stdout
    sys.stdout = Tee()
    try:
        r = run_script(text, dec, monitor=stop_at is not None, stop_at=stop_at)
    finally:
        sys.stdout = saved
    out = ''.join(e[1] for e in r.log if e[0] == 'stdout')
    evs = [e for e in r.log if e[0] in ('dev', 'lan', 'clock')
           and e[1] not in ('start', 'stop', 'reset')]
    return r, out, repr(evs)


def part_pair(ctx, i):
    rng = ctx.rng('pair', i)
    pop = gen.random_population(rng, 4)
    progs = []
    for _ in range(2):
        try:
            prog, _, dec = gen.generate(rng, pop, PROFILE_OUT)
        except gen.TooBig:
            return
        progs.append((render.canonical(render.tokens(prog, rng)), dec))
    env.configure(simnet.make_devices(pop), output='stdout')
    (ta, da), (tb, db) = progs
    rb, out_alone, log_alone = run_with_stdout(tb, db, pop)
    if not rb.accepted or rb.stops:
        return
    # the first job runs to its end or is stopped at a random instruction
    stop_at = rng.randint(1, 80) if rng.random() < 0.5 else None
    ra, _, _ = run_with_stdout(ta, da, pop, stop_at)
    if stop_at is not None and ra.mon is not None and \
            ra.mon.stopped_at is not None:
        ctx.count('pairs_first_job_stopped')
    rb2, out_after, log_after = run_with_stdout(tb, db, pop)
    ctx.case('N:' + sig([ta, tb]), nontrivial=len(out_alone) > 0)
    replay = {'part': 'pair', 'first': ta, 'second': tb, 'population': pop}
    if out_after != out_alone:
        ctx.violation('pair:stdout-differs' + (
            ':after-stopped-job' if stop_at is not None else ''),
            'second job wrote {!r} after another job, {!r} alone | '
            'first job{}: ...{}'.format(
                out_after[:80], out_alone[:80],
                ' (stopped at step {})'.format(stop_at) if stop_at else '',
                ta[-200:]), replay)
    elif log_after != log_alone:
        ctx.violation('pair:log-differs', 'second job behaves differently '
                      'after: ...{}'.format(ta[-200:]), replay)
    else:
        ctx.count('pairs_equal')


def part_queued(ctx, i):
    """The way `lsrun a.ls b.ls c.ls`, `queue_script()` and the web server
    work: every job is compiled when it is queued and executed later, after
    the other jobs have been compiled.  Each job, when its turn comes, does
    what the same script does as the only job there is."""
    rng = ctx.rng('queued', i)
    pop = gen.random_population(rng, 4)
    scripts = []
    for _ in range(rng.randint(2, 4)):
        try:
            prog, _, dec = gen.generate(rng, pop, PROFILE_OUT)
        except gen.TooBig:
            return
        scripts.append((render.canonical(render.tokens(prog, rng)), dec))
    if rng.random() < 0.3:
        # one text that is rejected sits in the queue as well
        scripts.insert(rng.randrange(len(scripts) + 1),
                       (rng.choice(['on all ]]]', 'define', 'hue 5 set']), []))
    diffrun.setup(pop)
    alone = []
    for text, dec in scripts:
        reset_devices(pop)
        r = run_script(text, dec, budget=20000)
        if r.budget_exhausted or r.stops or r.compile_exc is not None:
            return
        alone.append((r.accepted, r.errors,
                      repr(refmodel.stream_of(r.log)) if r.accepted else None))
    jobs = []
    for text, dec in scripts:
        try:
            jobs.append(ScriptJob.from_string(text))
        except Exception as ex:
            ctx.violation('queued:compile-raised', '{!r} | {!r}'.format(
                ex, text[:200]), {'part': 'queued',
                                  'scripts': [t for t, _ in scripts]})
            return
    replay = {'part': 'queued', 'scripts': [t for t, _ in scripts],
              'population': pop}
    ctx.case('Q:' + sig([t for t, _ in scripts]),
             nontrivial=sum(1 for a in alone if a[0]) >= 2)
    order = list(range(len(jobs)))
    if rng.random() < 0.3:
        rng.shuffle(order)
    for k in order:
        (text, dec), job, (acc, errs, want) = scripts[k], jobs[k], alone[k]
        if (job.program is not None) != bool(acc):
            ctx.violation(
                'queued:verdict-changed',
                'job {} of {} compiled before the others: {} where the script '
                'alone is {} | {!r}'.format(
                    k, len(jobs),
                    'accepted' if job.program is not None else 'rejected',
                    'accepted' if acc else 'rejected', text[:200]), replay)
            return
        if not acc:
            if job.compile_errors != errs:
                ctx.violation(
                    'queued:errors-changed',
                    'job {} of {}: compile_errors is {!r} after the other jobs '
                    'were compiled, {!r} alone | {!r}'.format(
                        k, len(jobs), str(job.compile_errors)[:120],
                        str(errs)[:120], text[:200]), replay)
                return
            ctx.count('queued_rejected_jobs_compared')
            continue
        reset_devices(pop)
        r = run_script(text, dec, job=job, budget=20000)
        got = repr(refmodel.stream_of(r.log))
        if not (r.stops or r.budget_exhausted or got != want) and \
                rng.random() < 0.5:
            # ... and once more, without anybody having looked at the job in
            # between (the monitors of the other parts read job.program,
            # which must not matter, but here nothing does)
            reset_devices(pop)
            r = run_script(text, dec, job=job, budget=20000)
            got = repr(refmodel.stream_of(r.log))
            ctx.count('queued_jobs_run_twice')
        if r.stops or r.budget_exhausted or got != want:
            a = refmodel.stream_of(r.log)
            ctx.violation(
                'queued:job-differs',
                'job {} of {} compiled first and run later produced {} event(s) '
                '(first: {}) {} where the script alone produces {} | {!r}'
                .format(k, len(jobs), len(a), a[:1], r.stops[:1],
                        want[:160], text[:300]), replay)
            return
        ctx.count('queued_jobs_equal')


PROFILE_OUT = gen.profile(len=(2, 12), depth=2,
                          w={'print': 20, 'printf': 6, 'units': 2})


def run_shard(ctx):
    n = N[ctx.tier]
    for i in range(ctx.shard, n, ctx.nshards):
        k = (i // ctx.nshards) % 4
        if k == 0:
            part_parser(ctx, i)
        elif k == 1:
            part_job(ctx, i)
        elif k == 2:
            part_pair(ctx, i)
        else:
            part_queued(ctx, i)
    ctx.sample({'part': 'parser', 'sequence': ['on all',
                                               'this is garbage ]]]',
                                               'on all']})
    ctx.sample({'part': 'job', 'plan': ['complete', 'stop at step k',
                                        'complete'],
                'script': 'repeat 3 begin print 1 set "A" end'})


def finalize(merged):
    c = merged['counters']
    for need in ('compile_requests', 'reruns_equal', 'stopped_runs',
                 'pairs_equal', 'queued_jobs_equal'):
        if not c.get(need) and not merged['violations']:
            merged['inconclusive'].append('monitor observed nothing: ' + need)


def replay(doc):
    r = doc['replay']
    if r.get('part') == 'parser':
        used = Parser()
        for t in r['texts']:
            got, want = compile_result(used, t), compile_result(Parser(), t)
            print(repr(t)[:200])
            print('   used:', got[:2], ' fresh:', want[:2],
                  'SAME' if got == want else 'DIFFERENT')
    else:
        print(r)
    return 0
