"""C15 -- zone and row/column addressing hits exactly the addressed cells,
once each.  Generated programs full of zone and matrix statements run against
multizone devices of 1-82 zones and matrix devices of any height/width; the
reference interpreter keeps an overlay model over the *device's* dimensions
(later stages over earlier, saved default or black elsewhere, inclusive
ranges, omitted end = start, omitted clause = full extent) and checks every
zone message and every tile payload cell by cell with the numeric oracle."""
from bvf import gen, progcheck

ID = 'C15'
MANIFEST = {
    'category': 'exploration',
    'technique': 'differential trace checking of zone messages and tile '
                 'payloads against a reference overlay model',
    'text': 'Random programs dominated by `set L zone a [b]`, one-line '
            '`set L row.. column..` and `set L begin .. stage .. end` blocks '
            '(1-6 stages, overlapping rectangles given as literals, '
            'variables, macros, expressions and loop indices, rows/columns in '
            'either order, omitted ends and clauses, with and without '
            '`set default`, all unit modes) on multizone devices with 1-82 '
            'zones and matrix devices h x w with h <= 11, w <= 8. Exactly one '
            'message per statement is required and every cell of every '
            'payload is compared (half a raw unit). Sampled.'
            ' One colour sent in one script to a plain light, a zone and '
            'matrix cells must arrive as the same four integers (tie valu'
            'es in all unit modes); the same clauses are repeated word fo'
            'r word on a second matrix light of another size.'
            ' 12 % of the matrix lights have 65-128 cells.',
    'note': 'Trusted: reference overlay model, simulated devices; '
            'set_zone_color(start,end) = [start,end). Ranges stay inside the '
            'device and ordered (the statement says nothing else).',
}
LEVEL = 'exploration'
SHARDS = {'quick': 16, 'thorough': 16}
N = {'quick': 3000, 'thorough': 150000}
TIMEOUT = {'quick': 900, 'thorough': 10800}
RULE = ('one case = one generated program (profile "zones+matrix") over a '
        'population with at least one multizone and one matrix device; '
        'non-trivial: at least one zone or tile message was checked; distinct '
        '= distinct (AST shape, feature-tag set).')
ASSUMPTIONS = [
    'set_zone_color(start, end) colours [start, end)',
    'units are not switched inside a begin/end block',
    'cells are compared within half a raw unit of the conversion a plain `set` '
    'would apply (hue on the circle)',
]
PROFILE = gen.profile(
    len=(4, 25), known_ints=0.7,
    w={'action': 30, 'setreg': 14, 'default': 4, 'black': 2.5, 'repeat': 4, 'if': 3,
       'assign': 3, 'print': 2, 'routine': 1.5, 'call': 2, 'units': 1.5,
       'get': 0.3, 'time': 0.3, 'time_at': 0, 'wait': 0.2, 'printf': 0.3,
       'break': 0.5, 'return': 0.5, 'define': 2})
REQUIRED = ['tag:zone-single', 'tag:zone-range', 'tag:matrix-inline',
            'tag:matrix-block', 'tag:stage', 'tag:set-default',
            'tag:range-by-variable', 'tag:range-by-macro', 'tag:units-raw',
            'tag:units-rgb', 'ev:set_zone_color', 'ev:SetTileState64',
            'tag:zone-on-non-multizone', 'tag:matrix-on-non-matrix',
            'tag:clause-sequences']


def population(rng):
    descs = gen.random_population(rng, 6)
    have = {d['kind'] for d in descs}
    names = {d['label'] for d in descs}
    if 'mz' not in have or rng.random() < 0.3:
        lb = rng.choice([n for n in ('Strip', 'Beam', 'Z 2') if n not in names])
        descs.append({'label': lb, 'group': 'Pole', 'location': 'Home',
                      'kind': 'mz', 'zones': rng.randint(1, 82),
                      'color': [1, 2, 3, 3500], 'power': 0})
        names.add(lb)
    if 'matrix' not in have or rng.random() < 0.3:
        lb = rng.choice([n for n in ('Candle', 'Tube', 'Tile') if n not in names]
                        or ['Tile 9'])
        while True:
            h, w = rng.randint(1, 11), rng.randint(1, 8)
            if h * w <= 64:
                break
        if rng.random() < 0.12:
            # more cells than one tile message is meant for: the repository
            # still sends the whole matrix in one message ("any height/width")
            h, w = rng.choice([(12, 8), (10, 10), (13, 5), (16, 8), (9, 8)])
        descs.append({'label': lb, 'group': 'Pole', 'location': 'Home',
                      'kind': 'matrix', 'height': h, 'width': w,
                      'color': [1, 2, 3, 3500], 'power': 0})
    if rng.random() < 0.35:
        # a second matrix light of another size
        taken = {d['label'] for d in descs}
        free = [n for n in ('Candle', 'Tube', 'Tile', 'Tile 9')
                if n not in taken]
        first = [d for d in descs if d['kind'] == 'matrix'][0]
        while free:
            h, w = rng.randint(1, 11), rng.randint(1, 8)
            if h * w <= 64 and (h, w) != (first['height'], first['width']):
                descs.append({'label': free[0], 'group': 'Pole',
                              'location': 'Home', 'kind': 'matrix',
                              'height': h, 'width': w,
                              'color': [1, 2, 3, 3500], 'power': 0})
                break
    for d in descs:
        if d['kind'] == 'mz' and rng.random() < 0.5:
            d['zones'] = rng.randint(1, 82)
    return descs


def sequences(rng, pop):
    """runs of zone / row-column statements on one device with every mix of
    given, half-given and omitted clauses: what an omitted clause or end means
    must not depend on the statement before it"""
    mats = [d for d in pop if d['kind'] == 'matrix']
    mzs = [d for d in pop if d['kind'] == 'mz']
    prog = [['setreg', 'saturation', ['num', 80]],
            ['setreg', 'brightness', ['num', 60]],
            ['setreg', 'kelvin', ['num', 3000]]]
    hue = [10]
    state = {'mode': 'logical', 'nums': [10, 80, 60]}
    ties = rng.random() < 0.4
    if ties:
        # numbers whose raw value falls exactly between two integers: a cell
        # is rounded the way a plain `set` rounds
        state['nums'] = [12, rng.choice([30, 70]), rng.choice([30, 70])]
        hue[0] = 12
        prog[:2] = [['setreg', 'hue', ['num', 12]],
                    ['setreg', 'saturation', ['num', state['nums'][1]]],
                    ['setreg', 'brightness', ['num', state['nums'][2]]]]
    REGS3 = {'logical': ('hue', 'saturation', 'brightness'),
             'raw': ('hue', 'saturation', 'brightness'),
             'rgb': ('red', 'green', 'blue')}

    def colour():
        if rng.random() < 0.2:
            # another unit mode, the same three numbers: what a cell gets is
            # what a plain `set` would send for them *in this mode*
            state['mode'] = rng.choice([m for m in REGS3
                                        if m != state['mode']])
            prog.append(['units', state['mode']])
            prog.extend(['setreg', r, ['num', v]] for r, v in zip(
                REGS3[state['mode']], state['nums']))
            return ['setreg', 'kelvin', ['num', 3000]]
        hue[0] = (hue[0] + rng.choice([17, 40, 95])) % 100
        if ties:
            hue[0] = rng.choice([12, 60, 30, 70])
        state['nums'][0] = hue[0]
        return ['setreg', REGS3[state['mode']][0], ['num', hue[0]]]

    def rng_spec(ext, allow_none=True):
        r = rng.random()
        if allow_none and r < 0.35:
            return None
        a = rng.randrange(ext)
        if r < 0.65:
            return [['num', a], None]
        b = ['num', rng.randint(a, ext - 1)]
        if rng.random() < 0.2:
            # a number given as a function call (no braces needed)
            b = ['call', 'same', [b]]
            if rng.random() < 0.3:
                return [['call', 'same', [['num', a]]], b]
        return [['num', a], b]
    prog.insert(0, ['routine', 'same', ['sx'], [['return', ['var', 'sx']]],
                    True])

    def fits(spec, ext):
        if spec is None:
            return True
        nums = [x for x in spec if x is not None]
        return all(x[0] == 'num' and x[1] < ext for x in nums)

    def rc(h, w):
        rows, cols = rng_spec(h), rng_spec(w)
        if rows is None and cols is None:
            if rng.random() < 0.5:
                rows = rng_spec(h, False)
            else:
                cols = rng_spec(w, False)
        return rows, cols, rng.choice(['rc', 'rc', 'cr'])
    for _ in range(rng.randint(3, 8)):
        prog.append(colour())
        if mats and (not mzs or rng.random() < 0.7):
            d = rng.choice(mats)
            h, w = d['height'], d['width']
            nx = ['str', d['label']]
            if rng.random() < 0.5:
                rows, cols, order = rc(h, w)
                prog.append(['action', 'set', [['matrix', nx, rows, cols, order]]])
                others = [m for m in mats if m is not d and fits(
                    rows, m['height']) and fits(cols, m['width'])]
                if others and rng.random() < 0.6:
                    # the same clauses, word for word, for a light of another
                    # size: what an omitted clause or end means is that
                    # light's extent
                    if rng.random() < 0.4:
                        prog.append(colour())
                    prog.append(['action', 'set', [[
                        'matrix', ['str', rng.choice(others)['label']], rows,
                        cols, order]]])
            else:
                body = []
                for _ in range(rng.randint(1, 4)):
                    if rng.random() < 0.6:
                        body.append(colour())
                    rows, cols, order = rc(h, w)
                    body.append(['stage', rows, cols, order])
                prog.append(['action', 'set', [['mblock', nx, body]]])
        else:
            d = rng.choice(mzs)
            spec = rng_spec(d['zones'], False)
            if rng.random() < 0.3 and spec[0][0] == 'num' and (
                    spec[1] is None or spec[1][0] == 'num'):
                # whole numbers that arrive as floats: a quotient, or the
                # variable of an interpolating loop
                spec = [['bin', '/', ['num', 2 * spec[0][1]], ['num', 2]],
                        spec[1] and ['bin', '/', ['num', 4 * spec[1][1]],
                                     ['num', 4]]]
            if rng.random() < 0.15 and d['zones'] >= 4:
                top = d['zones'] - 1 - (d['zones'] - 1) % 3
                prog.append(['repeat', 'interp',
                             {'n': ['num', 4], 'var': 'lx', 'a': ['num', 0],
                              'b': ['num', top]},
                             [colour(), ['action', 'set', [
                                 ['zone', ['str', d['label']], ['var', 'lx'],
                                  None]]]]])
                continue
            prog.append(['action', 'set', [['zone', ['str', d['label']],
                                            spec[0], spec[1]]]])
    return prog, {'clause-sequences'}, []


PLAIN_POP = [dict(label='Lamp', group='G', location='P'),
             dict(label='Strip', group='G', location='P', kind='mz', zones=6),
             dict(label='Candle', group='G', location='P', kind='matrix',
                  height=3, width=2)]
# numbers whose raw value lies exactly between two integers, and ordinary ones
TIES = {'logical': ([12, 60, 108, 156, 204, 252, 300, 348, 36, 84, 7.5, 200],
                    [30, 70, 10, 50, 90, 33.3, 100, 0]),
        'rgb': ([30, 70, 10, 50, 100, 0, 33.3], [30, 70, 10, 50, 100, 0]),
        'raw': ([0.5, 2.5, 1.5, 100.5, 65534.5, 32768, 7],
                [0.5, 2.5, 1.5, 20000.5, 65535, 9])}


def part_same_as_plain(ctx):
    """"Cell colours are converted exactly as a plain `set` would convert
    them": one colour sent, in one script, to a plain light, to a zone and to
    matrix cells (staged and default) -- the four integers are the same"""
    from bvf.runner import run_script
    from bvf.oracle import lit
    from bvf import env, simnet
    env.configure(simnet.make_devices(PLAIN_POP))
    rng = ctx.rng('plain', ctx.shard)
    for _ in range(25 if ctx.tier == 'quick' else 1500):
        mode = rng.choice(['logical', 'logical', 'rgb', 'raw'])
        first, rest = TIES[mode]
        vals = [rng.choice(first), rng.choice(rest), rng.choice(rest)]
        k = rng.choice([2700, 2500.5, 3500]) if mode != 'raw' else \
            rng.choice([2700, 2500.5, 0.5])
        regs = ('red', 'green', 'blue') if mode == 'rgb' else \
            ('hue', 'saturation', 'brightness')
        text = 'units {} {} kelvin {} '.format(mode, ' '.join(
            '{} {}'.format(r, lit(v)) for r, v in zip(regs, vals)), lit(k))
        text += rng.choice([
            'set "Lamp" set "Strip" zone 1 3 set "Candle" row 0 1',
            'set "Lamp" set default set "Candle" column 1 set "Strip" zone 2',
            'set "Lamp" set "Candle" begin stage row 1 stage column 0 end '
            'set "Strip" zone 0',
            'set default set "Lamp" set "Candle" begin stage row 2 end'])
        r = run_script(text)
        ctx.case('SP:' + text)
        replay = {'part': 'same-as-plain', 'script': text}
        if not r.accepted or r.stops:
            ctx.violation('same-as-plain:rejected-or-aborted', '{} {} | {}'
                          .format(r.errors.strip(), r.stops[:1], text), replay)
            continue
        plain, others, cells = None, [], []
        for e in r.log:
            if e[0] != 'dev' or e[-1] != 'ok':
                continue
            if e[2] == 'set_color':
                plain = list(e[3][0])
            elif e[2] == 'set_zone_color':
                others.append(('zone', list(e[3][2])))
            elif e[2] == 'SetTileState64':
                cells.extend(('cell', list(c)) for c in e[3][0]['colors'])
        # cells no stage covers carry the default, black unless `set default`
        # came first: they are left out -- unless the colour itself is black
        # (raw 0.5 rounds to 0), in which case every cell must be black
        others += [c for c in cells
                   if plain == [0, 0, 0, 0] or c[1] != [0, 0, 0, 0]]
        if plain is None or not others:
            ctx.violation('same-as-plain:nothing-sent', text, replay)
            continue
        diff = [(w, c) for w, c in others if c != plain]
        if diff:
            ctx.violation('same-as-plain:' + diff[0][0] + '-differs',
                          'a plain set sends {}, the {} gets {} | {}'.format(
                              plain, diff[0][0], diff[0][1], text), replay)
        else:
            ctx.count('colours_equal_to_plain_set', len(others))


def run_shard(ctx):
    part_same_as_plain(ctx)
    n = N[ctx.tier]
    for i in range(ctx.shard, n, ctx.nshards):
        out = progcheck.one_case(ctx, i, PROFILE, 'c15', pop_fn=population,
                                 prog_fn=sequences if i % 8 == 7 else None)
        if out is None:
            continue
        msgs = out.stats.get('ev:set_zone_color', 0) + \
            out.stats.get('ev:SetTileState64', 0)
        ok = progcheck.account(ctx, out, 'c15',
                               min_events=1 if msgs else 10 ** 9)
        if ok:
            ctx.count('zone_or_tile_messages_checked', msgs)
        if ok and i % 1000 < ctx.nshards:
            ctx.sample({'script': out.text[:500], 'devices': [
                (d['label'], d['kind'], d.get('zones') or
                 (d.get('height'), d.get('width'))) for d in out.pop]})


def finalize(merged):
    c = merged['counters']
    if not c.get('colours_equal_to_plain_set') and not merged['violations']:
        merged['inconclusive'].append('no cell was compared with a plain set')
    low = [k for k in REQUIRED if c.get(k, 0) < 20]
    if low and not merged['violations']:
        merged['inconclusive'].append(
            'shapes generated fewer than 20 times: {}'.format(low))


def replay(doc):
    return progcheck.replay_doc(doc)
