"""C04 -- every repeat form runs the documented number of times with the
documented values.  Loop-heavy generated programs print their loop variables
and address lights inside the bodies; the reference interpreter implements
the loop rules of the statement (count evaluated once, two-bound integer form
in both directions, n-point interpolation including n = 0 and 1, cycle with a
full turn of 360 / 65536 in raw units, while, iteration over the sorted
directory with the accompanying range spread over the count, break leaving
the innermost loop only)."""
from bvf import gen, progcheck

ID = 'C04'
MANIFEST = {
    'category': 'exploration',
    'technique': 'differential trace checking of loop-variable sequences and '
                 'addressed lights against reference loop rules',
    'text': 'Random loop-heavy programs: all repeat forms (count, from/to in '
            'both directions, n-point interpolation, cycle with and without '
            'start incl. zero count, while, infinite with break, all, group, '
            'location, in <list of lights/groups/locations>) with counts '
            '{0,1,2,3,4,7}, bounds as literals/variables/expressions, nesting '
            'to depth 3 of any kind in any other and inside routines, break in '
            'every position, populations with 0-8 lights sharing or not '
            'sharing groups; one case in ten is a cycle loop (plain or over '
            'lights) entered under a unit mode other than the lexically '
            'preceding one (routine defined before a units switch, units '
            'switched inside a routine or an if arm), one in ten a loop whose '
            'bounds mention its own loop variable. Loop variables are printed and compared with an '
            'independent interpreter (relative tolerance 1e-9). Sampled.'
            ' A fifth of the populations have group and location names th'
            'at differ only by a blank at either end.'
            ' One population in twenty has 10-21 lights, groups and locat'
            'ions whose names end in numbers of different lengths.',
    'note': 'Trusted: reference interpreter; iteration order = sorted names '
            'within each listed source, sources in the order written; a light '
            'mentioned by two sources is visited once per mention.',
}
LEVEL = 'exploration'
SHARDS = {'quick': 16, 'thorough': 16}
N = {'quick': 4000, 'thorough': 150000}
TIMEOUT = {'quick': 900, 'thorough': 10800}
RULE = ('one case = one generated program (profile "loops"); non-trivial: at '
        'least one loop ran and 3 boundary events were produced; distinct = '
        'distinct (AST shape, feature-tag set).')
ASSUMPTIONS = [
    'loop variables are not read after their loop nor assigned in the body',
    'interpolated values are compared with relative tolerance 1e-9',
]
PROFILE = gen.profile(
    len=(5, 30),
    w={'repeat': 22, 'break': 7, 'print': 8, 'action': 6, 'assign': 6,
       'if': 6, 'setreg': 3, 'routine': 4, 'call': 7, 'return': 1, 'get': 1,
       'units': 3, 'time': 0.3, 'time_at': 0, 'wait': 0.3, 'printf': 1,
       'define': 1, 'default': 0.2},
    trace_loops=0.85, trace_vars=0.2, zero_cycle=True, matrix=False)
KINDS = ['count', 'range', 'interp', 'cycle', 'while', 'inf', 'all', 'groups',
         'locations', 'in']
REQUIRED = (['tag:repeat-' + k for k in KINDS]
            + ['tag:repeat-' + k + '-nested' for k in KINDS]
            + ['tag:repeat-' + k + '-in-routine' for k in
               ('count', 'range', 'interp', 'all', 'in')]
            + ['break', 'tag:break-depth1', 'tag:break-depth2',
               'tag:break-depth3', 'loop:n=0', 'loop:n=1', 'loop:range-',
               'loop:range+', 'loop:interp n=0', 'loop:interp n=1',
               'loop:cycle n=0', 'loop:cycle n=1', 'loop:all n=0',
               'loop:in n=0', 'loop:in n=3', 'tag:loop-vars-printed',
               'tag:units-crossing', 'tag:own-bounds'])


def crossing(rng, pop):
    """cycle loops whose unit mode at loop entry is not the one of the
    lexically preceding `units` command (the generator itself only switches
    units in straight-line top-level code)"""
    m1, m2 = rng.choice(['logical', 'raw', 'rgb']), rng.choice(
        ['logical', 'raw', 'raw', 'rgb'])

    def cyc(v, light_loop=False):
        n = rng.choice([0, 1, 2, 3, 4, 7])
        st = rng.choice([None, None, ['num', 0], ['num', 90], ['num', 100.5],
                         ['num', 30000], ['var', 'k']])
        body = [['print', ['var', v]]]
        if light_loop:
            return ['repeat', 'all', {'lvar': 'each', 'with': ['cycle', v, st]},
                    body]
        return ['repeat', 'cycle', {'n': ['num', n], 'var': v, 'start': st},
                body]

    def call(name):
        return ['call', name, [], None]
    shape = rng.choice(['routine-before-units', 'units-in-routine', 'if-arm',
                        'light-loop-in-routine', 'nested-call'])
    k = rng.choice([0, 3, 8, 200])
    prog = [['assign', 'k', ['num', k]]]
    if shape == 'routine-before-units':
        prog += [['units', m1],
                 ['routine', 'sweep', [], [cyc('rx')], True], ['units', m2],
                 call('sweep'), ['units', m1], call('sweep')]
    elif shape == 'units-in-routine':
        prog += [['routine', 'to_mode', [], [['units', m2]], True],
                 ['units', m1], call('to_mode'), cyc('lx'), ['units', m1],
                 cyc('ly')]
    elif shape == 'if-arm':
        prog += [['units', m1],
                 ['if', ['bin', '>', ['var', 'k'], ['num', 5]],
                  [['units', m2]], rng.choice([None, [['units', m1]]])],
                 cyc('lx'),
                 ['if', ['bin', '<', ['var', 'k'], ['num', 5]],
                  [['units', m2]], None],
                 cyc('ly')]
    elif shape == 'light-loop-in-routine':
        prog += [['routine', 'each_one', [], [cyc('rx', True)], True],
                 ['units', m2], call('each_one'), ['units', m1],
                 call('each_one')]
    else:
        prog += [['routine', 'inner', [], [cyc('rx')], True],
                 ['routine', 'outer', [], [['units', m2], call('inner')], True],
                 ['units', m1], call('inner'), call('outer'), call('inner')]
    return prog, {'units-crossing-' + shape, 'units-crossing'}, []


def own_bounds(rng, pop):
    """a loop whose bounds (or count) mention the loop variable itself, which
    holds a value from before: the bounds are evaluated before the variable
    gets its first value"""
    v0 = rng.choice([10, 3, -2, 0, 7])

    def mention(v):
        return rng.choice([['var', v], ['bin', '*', ['var', v], ['num', 2]],
                           ['bin', '-', ['var', v], ['num', 4]],
                           ['bin', '+', ['num', 1], ['var', v]]])

    def lit():
        return ['num', rng.choice([0, 1, 2, 5, -3, 12])]
    shape = rng.choice(['range', 'interp', 'interp', 'count', 'cycle',
                        'light-from', 'again', 'in-routine', 'while-number',
                        'while-number'])
    if shape == 'while-number':
        # `repeat while` on a plain number: it runs until the number is zero,
        # from either side
        n0 = rng.choice([-3, -1, 3, 2, -2.5, 1.5])
        step = (1 if n0 < 0 else -1) * (0.5 if n0 != int(n0) else 1)
        cond = rng.choice([['var', 'wc'],
                           ['bin', '-', ['var', 'wc'], ['num', 0]],
                           ['bin', '*', ['var', 'wc'], ['num', 2]]])
        return [['assign', 'wc', ['num', n0]],
                ['repeat', 'while', {'cond': cond},
                 [['print', ['var', 'wc']],
                  ['assign', 'wc', ['bin', '+', ['var', 'wc'],
                                    ['num', step]]]]],
                ['print', ['num', 77]]], {'own-bounds', 'while-number'}, []
    v = 'lx' if shape not in ('range', 'count') else 'li'
    body = [['print', ['var', v]]]
    prog = [['assign', v, ['num', v0]]]
    a, b = (lit(), mention(v)) if rng.random() < 0.6 else (mention(v), lit())
    if rng.random() < 0.25:
        a, b = mention(v), mention(v)
    if shape == 'range':
        prog.append(['repeat', 'range', {'var': v, 'a': a, 'b': b}, body])
    elif shape == 'interp':
        prog.append(['repeat', 'interp', {'n': ['num', rng.choice([1, 2, 3, 4])],
                                          'var': v, 'a': a, 'b': b}, body])
    elif shape == 'count':
        # the count names the variable a nested loop is about to use
        prog = [['assign', 'li', ['num', rng.choice([2, 3])]],
                ['repeat', 'count', {'n': ['var', 'li']},
                 [['print', ['num', 7]]]],
                ['repeat', 'range', {'var': 'li', 'a': ['num', 1],
                                     'b': ['bin', '+', ['var', 'li'],
                                           ['num', 1]]}, body]]
    elif shape == 'cycle':
        prog.append(['repeat', 'cycle', {'n': ['num', rng.choice([2, 3, 4])],
                                         'var': v, 'start': mention(v)}, body])
    elif shape == 'light-from':
        prog.append(['repeat', 'all', {'lvar': 'each',
                                       'with': ['from', v, a, b]}, body])
    elif shape == 'again':
        # the same loop statement executed twice: the second time the
        # variable holds the last value of the first
        loop = ['repeat', 'interp', {'n': ['num', 3], 'var': v, 'a': lit(),
                                     'b': ['num', 9]}, body]
        prog += [['repeat', 'count', {'n': ['num', 2]},
                  [['assign', v, ['num', v0]], loop]]]
    else:
        prog = [['routine', 'sweep', ['rx'],
                 [['repeat', 'interp', {'n': ['num', 3], 'var': 'rx',
                                        'a': ['num', 0],
                                        'b': ['bin', '*', ['var', 'rx'],
                                              ['num', 2]]},
                   [['print', ['var', 'rx']]]]], True],
                ['call', 'sweep', [['num', v0]], None]]
    return prog, {'own-bounds-' + shape, 'own-bounds'}, []


def padded_population(rng):
    """group and location names that differ only by a blank at either end are
    different groups and locations: each is bound once by `repeat group` /
    `repeat location`, and `repeat in group "x "` visits its members only"""
    pop = gen.random_population(rng)
    for d in pop:
        r = rng.random()
        if r < 0.35:
            d['group'] = d['group'] + rng.choice([' ', '  '])
        elif r < 0.5:
            d['group'] = ' ' + d['group']
        r = rng.random()
        if r < 0.3:
            d['location'] = d['location'] + ' '
        elif r < 0.4:
            d['location'] = ' ' + d['location']
    return pop


def numbered_population(rng):
    """ten and more lights, groups and locations whose names end in numbers
    of different lengths ("Spot 2", "Spot 10"): `repeat all`, `repeat group`
    and `repeat location` bind each exactly once, in the order of the names
    as plain text"""
    n = rng.choice([10, 11, 12, 14, 21])
    base = rng.choice(['Spot ', 'Lamp', 'L-'])
    return [{'label': '{}{}'.format(base, k + 1),
             'group': 'Zone {}'.format(k % rng.choice([3, 11, 12]) + 1),
             'location': 'Floor {}'.format(k % rng.choice([2, 10, 13]) + 1),
             'kind': rng.choice(['plain', 'plain', 'plain', 'mz']),
             'zones': 8, 'color': [k, 2 * k, 3 * k, 2700], 'power': 0}
            for k in range(n)]


def run_shard(ctx):
    n = N[ctx.tier]
    for i in range(ctx.shard, n, ctx.nshards):
        out = progcheck.one_case(
            ctx, i, PROFILE, 'c04',
            pop_fn=padded_population if i % 10 in (2, 6) else
            numbered_population if i % 20 == 3 else None,
            prog_fn=crossing if i % 10 == 9 else
            own_bounds if i % 10 == 4 else None,
            made_under=gen.random_population if i % 10 == 7 else None)
        if i % 10 == 7:
            ctx.count('jobs_made_under_another_population')
        if out is None:
            continue
        looped = out.stats.get('st:repeat', 0) > 0
        ok = progcheck.account(ctx, out, 'c04',
                               min_events=3 if looped else 10 ** 9)
        if ok and i % 1000 < ctx.nshards:
            ctx.sample({'script': out.text[:500], 'events_checked': out.events})


def finalize(merged):
    c = merged['counters']
    low = [k for k in REQUIRED if c.get(k, 0) < 20]
    if low and not merged['violations']:
        merged['inconclusive'].append(
            'loop shapes executed fewer than 20 times: {}'.format(low))


def replay(doc):
    return progcheck.replay_doc(doc)
