"""C01 -- running a script issues exactly the commands, waits and output its
source says.  Generated programs over every documented statement form are run
on the real compiler + loader + VM against the simulated LAN with a recording
clock and output sink; the reference interpreter (bvf/refmodel.py) consumes
the recorded event log online and flags the first disagreement."""
from bvf import runner, gen, progcheck

ID = 'C01'
MANIFEST = {
    'category': 'exploration',
    'technique': 'differential trace checking: reference interpreter as an '
                 'online monitor of the device/clock/output event log',
    'text': 'Seeded random well-formed programs (all documented statement '
            'forms, nesting up to 4, routines, every repeat form, break, '
            'return, get, zones, matrices, the three unit modes, names as '
            'literals/macros/variables) over random populations of 0-8 '
            'simulated devices are executed by the real compiler and VM; every '
            'device request, delay request and output value is compared, in '
            'order, with an independent interpreter written from the manual. '
            'Sampling of the program space, not enumeration.'
            ' One program in forty writes one triple of numbers to the co'
            'lour registers under alternating unit modes with a set after'
            ' each.',
    'note': 'Trusted: reference interpreter, simulated lifxlan devices, '
            'recording clock/output. Per-member order inside one group action '
            'and a delay in front of `set default`/`get` are not constrained.',
}
LEVEL = 'exploration'
SHARDS = {'quick': 16, 'thorough': 16}
N = {'quick': 4000, 'thorough': 150000}
TIMEOUT = {'quick': 900, 'thorough': 10800}
RULE = ('one case = one generated program + population + decision stream; '
        'non-trivial: accepted, judged by the reference interpreter and '
        'producing at least 3 boundary events; distinct = distinct (AST '
        'shape, feature-tag set). Programs leaving the documented domain at '
        'run time (e.g. rgb percentage outside 0..100) are discarded and '
        'counted as undecidable.')
ASSUMPTIONS = [
    'set_zone_color(start, end) colours [start, end)',
    'initial registers are 0.0, logical units',
    'order of per-member requests within one group/location action is free',
    'a delay request in front of `set default` or `get` is optional',
]
PROFILE = gen.profile()
REQUIRED = ['st:setreg', 'st:action', 'st:get', 'st:wait', 'st:assign',
            'st:define', 'st:routine', 'st:call', 'st:return', 'st:if',
            'st:repeat', 'st:break', 'st:print', 'st:println', 'st:printf',
            'st:units', 'st:time_at', 'if:true', 'if:false', 'break',
            'op:set:all', 'op:set:light', 'op:set:group', 'op:set:location',
            'op:set:zone', 'op:set:matrix', 'op:set:mblock', 'op:set:default',
            'op:on:all', 'op:on:light', 'op:on:group', 'op:on:location',
            'op:off:all', 'op:off:light', 'op:off:group', 'op:off:location',
            'ev:delay', 'ev:wait_until', 'ev:set_color', 'ev:set_power',
            'ev:set_zone_color', 'ev:SetTileState64', 'ev:get_color',
            'ev:set_color_all_lights', 'ev:set_power_all_lights', 'ev:out',
            'ev:newline']


def big_population(rng):
    n = rng.choice([100, 130, 150, 200, 300])
    return [{'label': 'L{:03d}'.format(k), 'group': 'G{}'.format(k % 3),
             'location': 'Hall' if k % 5 else 'Yard', 'kind': 'plain',
             'color': [k, 2 * k, 3 * k, 2700], 'power': 0}
            for k in range(n)]


def big_program(rng, pop):
    """scale, not shape: hundreds of lights in one iteration, recursion a few
    hundred calls deep with a value pending at every level"""
    depth = rng.choice([100, 150, 260, 300, 520, 600])
    total = ['routine', 'total', ['n'], [
        ['if', ['bin', '<=', ['var', 'n'], ['num', 0]],
         [['return', ['num', 0]]], None],
        ['return', ['bin', '+', ['var', 'n'],
                    ['call', 'total', [['bin', '-', ['var', 'n'],
                                        ['num', 1]]]]]]], True]
    down = ['routine', 'down', ['n'], [
        ['if', ['bin', '>', ['var', 'n'], ['num', 0]],
         [['call', 'down', [['bin', '-', ['var', 'n'], ['num', 1]]], None]],
         None],
        ['print', ['var', 'n']]], True]
    prog = [total, down,
            ['repeat', 'all', {'lvar': 'each', 'with': None},
             [['action', 'on', [['light', ['var', 'each']]]]]],
            ['print', ['num', 1]],
            ['repeat', 'in', {'lvar': 'item', 'with': None,
                              'srcs': [['group', ['str', 'G1']],
                                       ['location', ['str', 'Yard']]]},
             [['action', 'off', [['light', ['var', 'item']]]]]],
            ['print', ['call', 'total', [['num', depth]]]],
            ['call', 'down', [['num', min(depth, 150)]], None],
            ['action', 'on', [['group', ['str', 'G2']]]],
            ['print', ['num', 2]]]
    rng.shuffle(prog[2:])
    return prog, {'big-population', 'deep-recursion'}, []


def same_numbers_program(rng, pop):
    """The same numbers written to the colour registers under different unit
    modes, with a `set` after each: what is sent is determined by the registers
    *and* the mode at that moment (a conversion remembered from the previous
    command must not be reused because the numbers look the same)."""
    a, b, c = (rng.choice([0, 10, 25, 50, 50, 75, 100]) for _ in range(3))
    k = rng.choice([1500, 2700, 4000, 9000])
    hsb = [['setreg', 'hue', ['num', a]], ['setreg', 'saturation', ['num', b]],
           ['setreg', 'brightness', ['num', c]]]
    rgb = [['setreg', 'red', ['num', a]], ['setreg', 'green', ['num', b]],
           ['setreg', 'blue', ['num', c]]]
    send = [['action', 'set', [['all']]]]
    prog = [['setreg', 'kelvin', ['num', k]]]
    mode = 'logical'
    for _ in range(rng.randint(2, 4)):
        prog += (hsb if mode == 'logical' else rgb) + send
        if rng.random() < 0.3:
            prog += [['setreg', 'kelvin', ['num', rng.choice([2000, 6500])]]] \
                + send
        mode = 'rgb' if mode == 'logical' else 'logical'
        prog += [['units', mode]]
    prog += (hsb if mode == 'logical' else rgb) + send
    return prog, {'same-numbers-other-units'}, []


def run_shard(ctx):
    n = N[ctx.tier]
    for i in range(ctx.shard, n, ctx.nshards):
        big = i % 250 == 77
        same = i % 40 == 13
        runner.VIA_FILE[0] = i % 6 == 3
        try:
            out = progcheck.one_case(
                ctx, i, PROFILE, 'c01',
                pop_fn=big_population if big else None,
                prog_fn=big_program if big else
                same_numbers_program if same else None)
        finally:
            runner.VIA_FILE[0] = False
        if out is None:
            continue
        if i % 6 == 3:
            ctx.count('compiled_from_a_script_file')
        ok = progcheck.account(ctx, out, 'c01', min_events=3)
        if ok and i % 1000 < ctx.nshards:
            ctx.sample({'script': out.text[:400], 'population':
                        [d['label'] + ':' + d['kind'] for d in out.pop],
                        'events_checked': out.events})


def finalize(merged):
    c = merged['counters']
    low = [k for k in REQUIRED if c.get(k, 0) < 20]
    if low and not merged['violations']:
        merged['inconclusive'].append(
            'documented forms executed fewer than 20 times: {}'.format(low))
    merged['coverage_extra'] = {
        'programs_judged_ok': c.get('verdict:ok', 0),
        'discarded_undecidable': c.get('verdict:undecidable', 0)}


def replay(doc):
    return progcheck.replay_doc(doc)
