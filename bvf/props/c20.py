"""C20 -- the web front end runs only the manifest's scripts, escaped, without
duplicates.

Flask and Jinja are not installed in the sandbox.  A stub `flask` module
(Blueprint that records the routing rules, render_template that records the
template name and context, request with headers) is put into sys.modules and
the *real* web/front_end.py, web/web_app.py, JobControl, ScriptJob, parser and
VM run behind a mini-router that applies Flask's matching order (static rules
before `/<script_path>`, no `/` inside a segment).  Per request the monitors
record: jobs handed to JobControl (wrapped add_job/spawn_job), script files
opened (sys.addaudithook), stop requests per job, the template name and
context of every render, and -- through gates in the simulated devices, which
hold a job "running" until the harness releases it -- which scripts actually
executed.  A 40-line model of the routing table and manifest semantics says
what each request may do.
"""
import copy
import html
import json
import os
import re
import shutil
import sys
import threading
import time
import types

from bvf import env, simnet

ID = 'C20'
MANIFEST = {
    'category': 'exploration',
    'technique': 'request-by-request reference model of routing/manifest '
                 'semantics over recorded jobs, file opens (audit hook), stop '
                 'requests and template contexts, with device gates for '
                 'deterministic job states',
    'text': 'Random manifests (1-8 entries; hostile file names, paths, titles '
            'and colours with HTML metacharacters, quotes, blanks and path '
            'separators; optional path/title/background flag) and request '
            'sequences of 1-15 requests over listed and unlisted paths, stop '
            'routes, status and capture, interleaved with job completions '
            'controlled by gates in the simulated devices. Every request is '
            'judged against the model: which job may be handed to the job '
            'controller, which files may be opened, what the page context must '
            'contain (html.escape of the manifest strings), which jobs a stop '
            'reaches. Sampled manifests and sequences.'
            ' One session in sixty requests 18-40 listed scripts in a row'
            ' and every one must have run.',
    'note': 'Flask routing/escaping and Jinja rendering are not present: '
            '"renders" is judged at the handler boundary (the handler returns '
            'and every variable the template mentions is in the context). An '
            'exception thrown by stop-current/stop-all *after* they acted '
            '(no such manifest entry to render) is recorded, not held against '
            'the statement. Wall-clock waits on job threads are watchdogs '
            '(inconclusive when they fire).',
}
LEVEL = 'exploration'
SHARDS = {'quick': 16, 'thorough': 16}
N = {'quick': 1500, 'thorough': 60000}
TIMEOUT = {'quick': 1200, 'thorough': 14400}
RULE = ('one case = one manifest + one request sequence (1-15 requests); '
        'non-trivial = at least one listed path was requested; distinct = '
        'distinct (manifest, sequence).')
ASSUMPTIONS = [
    'Flask matches static rules before /<script_path> and a path segment '
    'contains no slash',
    'a job is "running" from the moment the controller starts it until its '
    'thread has ended',
]

# ---------------------------------------------------------------- flask stub
RENDERS = []          # (template, context)
RULES = []            # (rule, endpoint function)


class _Blueprint:
    def __init__(self, name, import_name):
        self.name = name

    def route(self, rule, **kw):
        def deco(fn):
            RULES.append((rule, fn))
            return fn
        return deco


def _render_template(name, **context):
    RENDERS.append((name, context))
    return 'rendered:' + name


class _Request:
    headers = {'User-Agent': 'Mozilla/5.0 (X11; Linux) verif'}


if 'flask' not in sys.modules:
    flask_stub = types.ModuleType('flask')
    flask_stub.Blueprint = _Blueprint
    flask_stub.render_template = _render_template
    flask_stub.request = _Request()
    flask_stub.Flask = object
    sys.modules['flask'] = flask_stub
if env.REPO not in sys.path:
    sys.path.insert(0, env.REPO)
from web import front_end, i_web, web_app as web_app_mod  # noqa: E402
from bardolph.lib import injection  # noqa: E402

STATIC = {'/': 'index', '/capture': 'capture', '/off': 'off',
          '/status': 'status', '/stop-current': 'stop_current',
          '/stop-all': 'stop_all'}


def route(path):
    """returns (handler name, argument) or None (404)"""
    if path in STATIC:
        return STATIC[path], None
    m = re.fullmatch(r'/stop/([^/]+)', path)
    if m:
        return 'stop_script', m.group(1)
    m = re.fullmatch(r'/([^/]+)', path)
    if m:
        return 'run_script', m.group(1)
    return None


def dispatch(path):
    r = route(path)
    if r is None:
        return '404'
    name, arg = r
    fn = getattr(front_end.fe, name)
    return fn(arg) if arg is not None else fn()


# ------------------------------------------------------------------ monitors
OPENED = []
_AUDIT_ON = [False]


def _audit(event, args):
    if _AUDIT_ON[0] and event == 'open':
        try:
            OPENED.append(os.fspath(args[0]))
        except TypeError:
            pass


sys.addaudithook(_audit)


class Gate:
    """device requests block until released: a job stays running"""
    def __init__(self):
        self.open = threading.Event()
        self.waiting = 0
        self.lock = threading.Lock()
        self.job_of_thread = {}       # thread ident -> id(job)
        self.released = set()         # jobs (by id) let through individually

    def __call__(self, label, method):
        if method in ('set_power', 'set_color'):
            with self.lock:
                self.waiting += 1
            name = self.job_of_thread.get(threading.get_ident())
            t0 = time.time()
            while not self.open.wait(0.002) and name not in self.released \
                    and time.time() - t0 < 20:
                pass
            with self.lock:
                self.waiting -= 1


HOSTILE = ['a&b', '<script>x</script>', 'q"uote', "it's", 'two words',
           'semi;colon', 'x<y>z', 'amp&amp;', 'per%cent', 'plus+', 'ünï',
           'tag</title>', "o'k", 'a=b', 'red', '#222', 'rgb(1, 2, 3)',
           'Linen', 'all-off', 'on_all', 'reading', 'Fade-To_dark', 'x.y',
           'UP', 'mixed_Case-name']
RESERVED = {'capture', 'off', 'status', 'stop-current', 'stop-all', 'stop',
            'static'}


def gen_manifest(rng):
    entries = []
    paths = set()
    files = set()
    for _ in range(rng.randint(1, 8)):
        base = rng.choice(HOSTILE)
        if rng.random() < 0.3:
            base = base + rng.choice(['-', '_', ' ']) + rng.choice(HOSTILE)
        base = base.replace('/', '')
        fname = base + rng.choice(['.ls', '.ls', '.ls', '', '.txt'])
        if rng.random() < 0.06:
            fname = 'sub/' + fname
        elif rng.random() < 0.06:
            # an absolute file name (the script lives outside script_path)
            fname = 'ABS:' + fname
        if fname in files or fname.startswith('.'):
            continue
        e = {'file_name': fname,
             'background': rng.choice(HOSTILE), 'color': rng.choice(HOSTILE)}
        if rng.random() < 0.5:
            p = rng.choice(HOSTILE).replace('/', '')
            if rng.random() < 0.15:
                # an explicit path is taken as it stands, `.ls` and all
                p = rng.choice([p + '.ls', base + '.ls', p + '.LS', 'x.ls'])
            e['path'] = p
        if rng.random() < 0.5:
            e['title'] = rng.choice(HOSTILE)
        if rng.random() < 0.3:
            e['run_background'] = True
        if rng.random() < 0.1:
            e['title'] = ''
        if rng.random() < 0.1:
            e['path'] = ''
        if fname.startswith('ABS:') and not e.get('path'):
            e['path'] = base          # (a default path would contain slashes)
        path = model_path(e)
        if path in paths or path in RESERVED or '/' in path or not path:
            continue
        paths.add(path)
        files.add(fname)
        entries.append(e)
    if rng.random() < 0.5:
        for special in ('stop-all', 'stop-current', 'off'):
            if rng.random() < 0.7:
                entries.append({'file_name': special + '.ls', 'path': special,
                                'background': '#222', 'color': 'Linen'})
    return entries


def model_path(e):
    p = e.get('path', '')
    if not p:
        p = e['file_name']
        if p.endswith('.ls'):
            p = p[:-3]
    return p


def model_title(e):
    t = e.get('title', '')
    if not t:
        t = model_path(e).replace('_', ' ').replace('-', ' ').title()
    return t


TEMPLATE_VARS = {}


def template_vars(name):
    if name not in TEMPLATE_VARS:
        src = open(os.path.join(env.REPO, 'web', 'templates', name)).read()
        names = set(re.findall(r'\{\{\s*([a-zA-Z_]+)', src))
        names |= set(re.findall(r'\{%\s*(?:if|for \w+ in)\s+([a-zA-Z_]+)', src))
        names -= {'sub_listing', 'agent', 'script', 'loop'}
        for args in re.findall(r'\{%\s*macro\s+\w+\(([^)]*)\)', src):
            names -= {a.strip() for a in args.split(',')}
        if 'script.' in src and 'for script in' not in src:
            names.add('script')
        TEMPLATE_VARS[name] = names
    return TEMPLATE_VARS[name]


def wire_web_app():
    """the WebApp the way the server wires it: web_module.configure(), with
    the parts that this harness has already set up (settings, lights, run-time
    library) left alone -- the binding of the application object is the
    repository's own"""
    from web import web_module

    class Keep:
        def add_overrides(self, *_): pass
        def apply_file(self, *_): pass
        def configure(self): pass
    saved = (web_module.injection.configure, web_module.settings.using,
             web_module.light_module.configure,
             web_module.runtime_module.configure)
    web_module.injection.configure = lambda: None
    web_module.settings.using = lambda *_: Keep()
    web_module.light_module.configure = lambda: None
    web_module.runtime_module.configure = lambda: None
    try:
        web_module.configure()
    finally:
        (web_module.injection.configure, web_module.settings.using,
         web_module.light_module.configure,
         web_module.runtime_module.configure) = saved
    return injection.provide(i_web.WebApp)


class Scenario:
    def __init__(self, ctx, manifest, workdir, replay, responsive=False):
        manifest = copy.deepcopy(manifest)
        self.ctx, self.manifest, self.replay = ctx, manifest, replay
        # responsive: a job that is asked to stop gets its pending device
        # request answered at once and winds down while the handler is still
        # running (otherwise it stays parked until the next RELEASE)
        self.responsive = responsive
        self.root = workdir
        self.bad = False
        shutil.rmtree(workdir, ignore_errors=True)
        os.makedirs(os.path.join(workdir, 'web'))
        os.makedirs(os.path.join(workdir, 'scripts', 'sub'))
        with open(os.path.join(workdir, 'web', 'manifest.json'), 'w') as f:
            json.dump(manifest, f)
        self.by_path = {}
        for e in manifest:
            if e['file_name'].startswith('ABS:'):
                e['file_name'] = os.path.join(workdir, 'elsewhere',
                                              e['file_name'][4:])
                # a decoy where a careless join would look instead
                decoy = os.path.join(workdir, 'scripts',
                                     e['file_name'].lstrip('/'))
                os.makedirs(os.path.dirname(decoy), exist_ok=True)
                with open(decoy, 'w') as f:
                    f.write('hue 98 set "A"\n')
        with open(os.path.join(workdir, 'web', 'manifest.json'), 'w') as f:
            json.dump(manifest, f)
        for k, e in enumerate(manifest):
            full = os.path.join(workdir, 'scripts', e['file_name'])
            os.makedirs(os.path.dirname(full), exist_ok=True)
            with open(full, 'w') as f:
                # device A's colour identifies the script that ran
                f.write('hue {} set "A"\n'.format(k + 1))
            self.by_path[model_path(e)] = (k, e)
        # unlisted scripts lying around in the script directory
        for stray in ('unlisted.ls', 'off-all.ls', 'off.ls', 'all-off.ls'):
            if not os.path.exists(os.path.join(workdir, 'scripts', stray)):
                with open(os.path.join(workdir, 'scripts', stray), 'w') as f:
                    f.write('hue 99 set "A"\n')
        self.cwd = os.getcwd()
        os.chdir(workdir)
        env.configure(simnet.make_devices(
            [dict(label='A', group='G', location='P')]),
            overrides={'script_path': os.path.join(workdir, 'scripts'),
                       'manifest_file_name': 'manifest.json'})
        self.gate = Gate()
        simnet.GATE = self.gate
        self.app = wire_web_app()
        self.jc = self.app._jobs
        self.jobs = []            # (kind, name, job)
        self.stops = []           # job names that received request_stop
        self.wrap_jobs()

    def wrap_jobs(self):
        jc = self
        orig_add, orig_spawn = self.jc.add_job, self.jc.spawn_job

        def watch(job, name):
            orig, orig_exec = job.request_stop, job.execute

            def request_stop():
                jc.stops.append(name)
                r = orig()
                if jc.responsive:
                    # this job only: a later job of the same name is parked
                    # again (letting it through by name made it look parked
                    # for the 2 ms of its gate visit and then finish by
                    # itself -- a false "job survives stop-all", 1 in 60 000
                    # sessions)
                    jc.gate.released.add(id(job))
                return r

            def execute():
                jc.gate.job_of_thread[threading.get_ident()] = id(job)
                return orig_exec()
            job.request_stop, job.execute = request_stop, execute

        def add_job(job, name=None):
            jc.jobs.append(('queue', name, job))
            watch(job, name)
            return orig_add(job, name)

        def spawn_job(job, name):
            jc.jobs.append(('background', name, job))
            watch(job, name)
            return orig_spawn(job, name)
        self.jc.add_job, self.jc.spawn_job = add_job, spawn_job

    def close(self):
        self.gate.open.set()
        t0 = time.time()
        while self.jc.has_jobs() and time.time() - t0 < 10:
            time.sleep(0.002)
        simnet.GATE = None
        os.chdir(self.cwd)

    def fail(self, mech, what):
        self.bad = True
        self.ctx.violation(mech, '{} | manifest {}'.format(
            what, json.dumps(self.manifest)[:400]), self.replay)

    def running_names(self):
        cur = self.jc.get_current()
        names = set(self.jc._background)
        if cur is not None:
            names.add(cur.name)
        return names

    def settle(self):
        """wait until the controller has started what it can start (job
        threads reach the gate or finish)"""
        t0 = time.time()
        while time.time() - t0 < 5:
            cur = self.jc.get_current()
            busy = [a for a in [cur] + list(self.jc._background.values())
                    if a is not None]
            if all((not a.is_running()) or self.gate.waiting > 0
                   for a in busy):
                # started agents are either finished or parked at the gate
                if self.gate.waiting >= sum(1 for a in busy if a.is_running()):
                    return True
            time.sleep(0.001)
        return False

    def release(self):
        """let every running job finish"""
        self.gate.open.set()
        t0 = time.time()
        while self.jc.has_jobs() and time.time() - t0 < 10:
            time.sleep(0.001)
        ok = not self.jc.has_jobs()
        self.gate.open.clear()
        return ok

    def check_context(self, template, context):
        missing = template_vars(template) - set(context)
        if missing:
            self.fail('render:missing-variable', '{} lacks {}'.format(
                template, sorted(missing)))
            return
        scripts = []
        if 'script' in context and context['script'] is not None:
            scripts.append(context['script'])
        scripts.extend(context.get('scripts') or [])
        for sc in scripts:
            raw_path = html.unescape(sc.path)
            entry = None
            for e in self.manifest:
                if html.escape(model_path(e)) == sc.path:
                    entry = e
            if entry is None:
                self.fail('render:unknown-script', 'page context holds a '
                          'script with path {!r} ({!r})'.format(sc.path,
                                                                raw_path))
                return
            want = {'path': html.escape(model_path(entry)),
                    'title': html.escape(model_title(entry)),
                    'file_name': html.escape(entry['file_name']),
                    'color': html.escape(entry['color']),
                    'background': html.escape(entry['background'])}
            for k, v in want.items():
                got = getattr(sc, k)
                if got != v:
                    kind = 'escaping' if html.unescape(got) == \
                        html.unescape(v) else 'derivation'
                    self.fail('render:{}:{}'.format(kind, k),
                              '{} is {!r}, expected {!r}'.format(k, got, v))
                    return
            self.ctx.count('context_strings_checked', len(want))

    def request(self, path):
        ctx = self.ctx
        RENDERS.clear()
        OPENED.clear()
        before_jobs = len(self.jobs)
        before_stops = len(self.stops)
        running_before = self.running_names()
        # jobs whose thread is alive right now (held at the gate)
        alive_before = [a.name for a in
                        [self.jc.get_current()] + list(self.jc._background.values())
                        if a is not None and a.is_running()
                        and id(a._job) not in self.gate.released]
        current_before = self.jc.get_current()
        queued_before = [a.name for a in self.jc.get_queued()]
        _AUDIT_ON[0] = True
        exc = None
        try:
            result = dispatch(path)
        except Exception as ex:
            exc = ex
            result = None
        finally:
            _AUDIT_ON[0] = False
        new_jobs = self.jobs[before_jobs:]
        new_stops = self.stops[before_stops:]
        opened = [p for p in OPENED if (
            p.startswith(self.root + os.sep)
            and not p.startswith(os.path.join(self.root, 'web')))
            or p.endswith('.ls')]
        r = route(path)
        ctx.count('requests')
        ctx.count('route:' + (r[0] if r else '404'))
        if r is None:
            if new_jobs or opened:
                self.fail('unroutable-path-acts', '{} -> jobs {} files {}'
                          .format(path, new_jobs, opened))
            return
        handler, arg = r
        if handler == 'run_script':
            listed = self.by_path.get(arg)
            if listed is None:
                if new_jobs or opened or exc is not None:
                    self.fail('unlisted-path-acts', 'GET {} started {} opened '
                              '{} raised {!r}'.format(path, [j[:2] for j in
                                                             new_jobs], opened,
                                                      exc))
                return
            k, e = listed
            name_running = any(html.unescape(n) == arg or n == arg
                               for n in running_before)
            reported_running = any(
                c.get('script') is not None and c['script'].running
                for _, c in RENDERS)
            if exc is not None:
                self.fail('listed-path-raises', 'GET {} raised {!r}'.format(
                    path, exc))
                return
            if reported_running and new_jobs:
                self.fail('started-twice', 'GET {} reported the script as '
                          'running and started it again'.format(path))
                return
            if name_running:
                if new_jobs:
                    self.fail('started-twice', 'GET {} while its job was '
                              'running started {}'.format(
                                  path, [j[:2] for j in new_jobs]))
                return
            if len(new_jobs) != 1:
                self.fail('listed-path-not-started', 'GET {} handed {} jobs '
                          'to the controller'.format(path, len(new_jobs)))
                return
            kind, name, job = new_jobs[0]
            want_kind = 'background' if e.get('run_background') else 'queue'
            if kind != want_kind:
                self.fail('wrong-mode', 'GET {} started in {} mode, manifest '
                          'says {}'.format(path, kind, want_kind))
                return
            want_file = os.path.join(self.root, 'scripts', e['file_name'])
            if [os.path.normpath(p) for p in opened] != \
                    [os.path.normpath(want_file)]:
                self.fail('wrong-file', 'GET {} opened {} instead of {}'.format(
                    path, opened, want_file))
                return
            if not job.program:
                self.fail('wrong-file', 'GET {} queued a job without a '
                          'program'.format(path))
                return
            ctx.count('listed_started')
            self.started_entries.append((k, kind))
        elif handler == 'stop_script':
            listed = self.by_path.get(arg)
            target_running = any(html.unescape(n) == arg or n == arg
                                 for n in running_before)
            if listed is None or not target_running:
                if new_stops or new_jobs:
                    self.fail('stop:acts-on-others', 'GET {} (not running / '
                              'unlisted) stopped {}'.format(path, new_stops))
                return
            if [html.unescape(n) for n in new_stops] != [arg]:
                self.fail('stop:wrong-target', 'GET {} stopped {}'.format(
                    path, new_stops))
                return
            ctx.count('stop_named_ok')
        elif handler == 'stop_current':
            want = [current_before.name] if current_before is not None and \
                current_before.is_running() else []
            # (an agent that was current but whose thread had not started or
            # had just ended may or may not be asked to stop)
            if sorted(new_stops) != sorted(want) and not (
                    current_before is not None and
                    new_stops in ([], [current_before.name])):
                self.fail('stop-current:wrong-target', 'stopped {} expected {}'
                          .format(new_stops, want))
                return
            if exc is not None:
                ctx.count('stop_current_raised_after_acting')
            ctx.count('stop_current_ok')
        elif handler == 'stop_all':
            must = set(alive_before)
            if not must <= set(new_stops):
                self.fail('stop-all:job-survives', 'running {} stopped {}'
                          .format(sorted(must), new_stops))
                return
            if self.jc.get_queued():
                self.fail('stop-all:queue-not-empty', '{} still queued'.format(
                    [a.name for a in self.jc.get_queued()]))
                return
            self.settle()
            survivors = [a.name for a in [self.jc.get_current()]
                         + list(self.jc._background.values())
                         if a is not None and a.is_running()
                         and a.name not in self.stops]
            if survivors:
                self.fail('stop-all:something-starts-afterwards',
                          '{} running after stop-all without having been '
                          'asked to stop'.format(survivors))
                return
            if exc is not None:
                ctx.count('stop_all_raised_after_acting')
            ctx.count('stop_all_ok')
        elif handler in ('status', 'capture', 'index'):
            if exc is not None:
                self.fail('{}:raises'.format(handler), repr(exc))
                return
            ctx.count(handler + '_ok')
        elif handler == 'off':
            # runs the manifest's entry for the path "off"; without such an
            # entry it is a request for an unlisted path
            if 'off' not in self.by_path and (new_jobs or opened):
                self.fail('unlisted-path-acts', 'GET /off without an "off" '
                          'entry started {} opened {}'.format(
                              [j[:2] for j in new_jobs], opened))
                return
            ctx.count('off_requests')
        if exc is None:
            for template, context in RENDERS:
                self.check_context(template, context)


def run_case(ctx, i, workdir):
    rng = ctx.rng('c20', i)
    manifest = gen_manifest(rng)
    if not manifest:
        return
    paths = [model_path(e) for e in manifest]
    seq = []
    for _ in range(rng.randint(1, 15)):
        r = rng.random()
        if r < 0.45:
            seq.append('/' + rng.choice(paths))
        elif r < 0.6:
            seq.append('/' + rng.choice(['unlisted', 'unlisted.ls', 'nope',
                                         '..', 'scripts', 'manifest.json',
                                         rng.choice(paths) + 'x',
                                         rng.choice(paths).upper(),
                                         html.escape(rng.choice(paths))]))
        elif r < 0.68:
            seq.append(rng.choice(['/../unlisted.ls', '/sub/x', '//',
                                   '/a/b/c']))
        elif r < 0.78:
            seq.append('/stop/' + rng.choice(paths + ['nope']))
        elif r < 0.84:
            seq.append('/stop-current')
        elif r < 0.89:
            seq.append('/stop-all')
        elif r < 0.905:
            seq.append('/off')
        elif r < 0.93:
            seq.append('/status')
        elif r < 0.96:
            seq.append('/capture')
        elif r < 0.98:
            seq.append('/')
        else:
            seq.append('RELEASE')
        if rng.random() < 0.25:
            seq.append('RELEASE')
    responsive = rng.random() < 0.4
    long_session = i % 60 == 17
    if long_session:
        # many scripts requested while the first is still running: each is
        # queued ("Started") and each runs, however long the queue has grown
        manifest = [{'file_name': 'long{:02d}.ls'.format(k),
                     'background': 'Linen', 'color': '#222'}
                    for k in range(rng.choice([18, 20, 24, 34, 40]))]
        paths = [model_path(e) for e in manifest]
        seq = ['/' + p for p in paths]
        responsive = False
        ctx.count('long_sessions')
    replay = {'manifest': manifest, 'requests': seq, 'responsive': responsive}
    ctx.case('W:{}:{}'.format(json.dumps(manifest, sort_keys=True), seq),
             nontrivial=any(s.startswith('/') and s[1:] in paths for s in seq))
    try:
        sc = Scenario(ctx, manifest, workdir, replay, responsive)
        ctx.count('sessions_responsive' if responsive else 'sessions_parked')
    except Exception as ex:
        ctx.violation('manifest:load-raises:' + type(ex).__name__,
                      '{!r} | {}'.format(ex, json.dumps(manifest)[:300]), replay)
        return
    sc.started_entries = []
    try:
        for step in seq:
            if sc.bad:
                break
            if step == 'RELEASE':
                if not sc.release():
                    ctx.set_inconclusive('jobs did not finish within 10 s')
                    break
                continue
            if '//' in step:
                continue
            sc.request(step)
            if not sc.settle():
                ctx.count('settle_watchdog')
        if not sc.bad:
            sc.release()
            # every script the controller was given did run (device A was set
            # to the colour that identifies the file) unless it was stopped
            ran = [round(e[3][0][0] * 360 / 65535) for e in simnet.LOG
                   if e[0] == 'dev' and e[2] == 'set_color' and e[4] == 'ok']
            listed_ids = {k + 1 for k in range(len(manifest))}
            for v in ran:
                if v not in listed_ids:
                    sc.fail('unlisted-script-executed',
                            'a script not in the manifest ran (hue {})'.format(v))
                    break
            if long_session and not sc.bad and \
                    sorted(ran) != sorted(listed_ids):
                sc.fail('queued-script-never-ran',
                        '{} scripts were requested one after the other and '
                        'reported as started; these never ran: {}, these ran '
                        'more than once: {}'.format(
                            len(manifest), sorted(listed_ids - set(ran))[:12],
                            sorted({v for v in ran if ran.count(v) > 1})[:6]))
            ctx.count('scripts_executed', len(ran))
            if env.THREAD_EXCEPTIONS:
                sc.fail('thread-exception', repr(env.THREAD_EXCEPTIONS[:1]))
    finally:
        sc.close()
    if i % 300 < ctx.nshards:
        ctx.sample({'manifest': manifest[:3], 'requests': seq})


def run_shard(ctx):
    workdir = os.path.join(env.VERIF, '.work', 'c20-{}-{}'.format(
        os.getpid(), ctx.shard))
    n = N[ctx.tier]
    try:
        for i in range(ctx.shard, n, ctx.nshards):
            run_case(ctx, i, workdir)
    finally:
        os.chdir(env.VERIF)
        shutil.rmtree(workdir, ignore_errors=True)


def finalize(merged):
    c = merged['counters']
    for need in ('listed_started', 'route:run_script', 'stop_named_ok',
                 'stop_all_ok', 'stop_current_ok', 'status_ok', 'capture_ok',
                 'context_strings_checked', 'scripts_executed'):
        if not c.get(need) and not merged['violations']:
            merged['inconclusive'].append('monitor observed nothing: ' + need)
    merged['coverage_extra'] = {
        'requests': c.get('requests', 0),
        'stop_handlers_raising_after_acting':
            c.get('stop_current_raised_after_acting', 0)
            + c.get('stop_all_raised_after_acting', 0)}


def replay(doc):
    from bvf.harness import Ctx
    r = doc['replay']
    ctx = Ctx('C20', 'quick', 0, 0, 1)
    workdir = os.path.join(env.VERIF, '.work', 'c20-replay')
    sc = Scenario(ctx, r['manifest'], workdir, r, r.get('responsive', False))
    sc.started_entries = []
    try:
        for step in r['requests']:
            if step == 'RELEASE':
                sc.release()
            elif '//' not in step:
                sc.request(step)
                sc.settle()
            print(step, '->', [j[:2] for j in sc.jobs], sc.stops)
    finally:
        sc.close()
        os.chdir(env.VERIF)
        shutil.rmtree(workdir, ignore_errors=True)
    for v in ctx.violations:
        print('VIOLATION property=C20', v['mech'], v['what'][:400])
    return 1 if ctx.violations else 0
