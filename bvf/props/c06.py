"""C06 -- the compiler always ends in accept or a line-numbered rejection,
never a crash; accepted scripts are executable.

Monitors:
  T  totality of Parser.parse on every input: no exception, returns within the
     watchdog, returns a bool, a rejection carries at least one `Line <n>`
     diagnostic; ScriptJob.load_string leaves no program after a rejection.
  M  mutation oracle: a valid generated program with exactly one documented
     rule broken by construction must be rejected.
  X  every accepted text (whatever generator it came from) is executed on the
     VM under the step monitor with an instruction budget; an *internal*
     fault (exception whose innermost repository frame is in the dispatch /
     stack / loader machinery, or a vmmon automaton firing) is a violation.
     Exceptions raised while applying an operator, built-in, conversion or
     format to script-supplied values are the script's own and are counted
     but not held against the compiler.
"""
import contextlib
import io
import re
import signal

from bvf import diffrun, env, gen, render, runner, simnet
from bvf.harness import sig
from bardolph.controller.script_job import ScriptJob
from bardolph.parser.parse import Parser
from bardolph.vm import machine as machine_mod

ID = 'C06'
MANIFEST = {
    'category': 'exploration',
    'technique': 'totality monitor on the compiler + rule-breaking mutation '
                 'oracle + fault classifier over VM runs of every accepted text',
    'text': 'Random token sequences over the whole vocabulary (incl. the '
            "lexer's internal class names and case variants), token-level "
            'mutations of valid generated scripts, single-rule-breaking '
            'mutants and byte noise are compiled under a totality monitor '
            '(exception, watchdog, return type, `Line n` diagnostic); every '
            'accepted text is then run on the VM under the step automata with '
            'an instruction budget and faults are classified as internal or '
            "the script's own. Crashes are de-duplicated by (exception type, "
            'innermost repository frame). Sampled input space.'
            ' Further classes: valid texts using one spelling as a quoted'
            ' string and as a number or time pattern (must be accepted an'
            'd run), commands inside matrix blocks, token soups in braces'
            ', long repetitions (20 s CPU bound per text).'
            ' Class H also holds sizeable valid texts: expressions nested'
            ' up to 100 deep, loops and lists over up to 100 names, routi'
            'nes of hundreds of commands.',
    'note': 'Trusted: the fault classifier (list of machinery frames), the '
            'construction of the rule-breaking mutants. A run stopped by the '
            'instruction budget is not a fault (infinite scripts are legal).',
}
LEVEL = 'exploration'
SHARDS = {'quick': 16, 'thorough': 16}
N = {'quick': 40000, 'thorough': 2000000}
TIMEOUT = {'quick': 900, 'thorough': 14400}
RULE = ('four input classes in rotation: (A) random token sequences of length '
        '1-15, (B) delete/duplicate/swap/truncate/insert mutations of valid '
        'generated scripts, (C) valid scripts with exactly one documented rule '
        'broken, (D) byte noise as latin-1 / utf-8; non-trivial = the text '
        'contains at least two tokens; distinct = distinct texts.')
ASSUMPTIONS = [
    'internal fault = innermost repository frame in machine.py (run, _jsr, '
    '_return, _end, _jump, _color, _power, current_inst, _param, _move, '
    '_moveq dispatch), call_stack.py, eval_stack.py, loader.py, vm_discover '
    'assertions, or a vmmon automaton firing',
    'keyboard `pause` is answered with a key press by the harness',
]

machine_mod.getch = lambda: 'x'

KEYWORDS = ('all and as assign at begin break breakpoint column cycle default '
            'define else end from get group if in location logical not null '
            'off on or print printf println pause raw row repeat return rgb '
            'set stage to units while with wait zone').split()
REGS = 'hue saturation brightness kelvin red green blue duration time'.split()
INTERNAL = ('number eof mark name error unknown compare register '
            'literal_string syntax_error time_pattern').split()
VOCAB = (KEYWORDS + REGS + ['H', 'S', 'B', 'K'] + INTERNAL
         + [w.capitalize() for w in ('if', 'number', 'set', 'end', 'eof')]
         + ['NUMBER', 'EOF', 'Mark', 'IF']
         + list('{}[]()+-*/%^<>') + ['==', '<=', '>=', '!=', '#', ':', '!',
                                     '=', ',', '.', '"', "'", '\\', '$', '@']
         + ['0', '1', '5', '12', '3.5', '.5', '100', '1e3', '007', '65535']
         + ['"Top"', '"a b"', '""', '"{}"', '"{"', '"}"', '"{0} {1}"',
            '"{x"', '"{:d}"', '"%s"', '"\\"', '"a\\"b"']
         + ['x', 'y', 'f', 'lt', '_a', 'A9', 'choose', 'round', 'sqrt',
            'random', 'cycle_', 'iff']
         + ['8:00', '*:30', '1*:*5', '25:00', '12:8*', '*:*', '*', '1:2',
            '8:00x', '-8:00'])

INTERNAL_FUNCS = {
    'bardolph/vm/machine.py': {'run', '_jsr', '_return', '_end', '_jump',
                               '_color', '_power', 'current_inst', '_param',
                               '_ctx', '_end_ctx', '_loop', '_end_loop'},
}
INTERNAL_FILES = {'bardolph/vm/call_stack.py', 'bardolph/vm/eval_stack.py',
                  'bardolph/vm/loader.py', 'bardolph/vm/instruction.py'}


class Timeout(Exception):
    pass


def _alarm(signum, frame):
    raise Timeout()


def innermost(tb):
    frames = env._frames(tb)
    return frames[-1] if frames else ('?', '?', 0)


CPU_LIMIT = 20.0      # seconds of this process's own CPU time per text


def compile_monitor(text, parser=None):
    """returns (verdict, detail): verdict in accepted / rejected / violation
    kinds ('crash:...', 'timeout', 'non-bool', 'no-line-number').  "Finishes"
    is restated as "within 20 s of CPU time" (texts are at most a few thousand
    characters and normally compile in milliseconds); the timer counts the
    process's own CPU time, so machine load does not decide."""
    parser = parser or Parser()
    signal.setitimer(signal.ITIMER_VIRTUAL, CPU_LIMIT)
    try:
        ok = parser.parse(text)
    except Timeout:
        return 'timeout', 'compiler did not finish within {} s of CPU ' \
            'time'.format(CPU_LIMIT)
    except RecursionError:
        return 'crash:RecursionError', 'RecursionError'
    except Exception as ex:
        f = innermost(ex.__traceback__)
        return 'crash:{}:{}'.format(type(ex).__name__, f[1]), \
            '{}: {} at {}'.format(type(ex).__name__, ex, f)
    finally:
        signal.setitimer(signal.ITIMER_VIRTUAL, 0)
    if ok is True:
        return 'accepted', ''
    if ok is not False:
        return 'non-bool', 'parse returned {!r}, diagnostics {!r}'.format(
            ok, parser.get_errors()[:100])
    errs = parser.get_errors()
    if not re.search(r'Line \d+', errs):
        return 'no-line-number', 'rejected with diagnostics {!r}'.format(errs)
    return 'rejected', errs


def classify_stop(stop):
    msg, etype, estr, frames = stop
    if not frames:
        return 'internal', 'no repository frame'
    f = frames[-1]
    if f[0] in INTERNAL_FILES:
        return 'internal', f
    if f[1] in INTERNAL_FUNCS.get(f[0], ()):
        return 'internal', f
    if f[0] == 'bardolph/vm/vm_discover.py' and etype == 'AssertionError':
        return 'internal', f
    return 'script', f


def execute_monitor(ctx, text, replay):
    """X: run an accepted text under the step monitor"""
    with contextlib.redirect_stdout(io.StringIO()):
        r = runner.run_script(text, [1, 0, 1, 1, 0, 2], monitor=True,
                              budget=5000)
    if r.compile_exc is not None or not r.accepted:
        return          # judged by T
    ctx.count('accepted_executed')
    if r.image_faults:
        ctx.violation('accepted:image:' + re.sub(r'\d+', 'N',
                                                 r.image_faults[0])[:50],
                      '{} | {}'.format(r.image_faults[:2], text[:300]), replay)
        return
    for stop in r.stops:
        kind, f = classify_stop(stop)
        if kind == 'internal':
            ctx.violation('accepted:vm-fault:{}:{}'.format(
                stop[1], f[1] if isinstance(f, tuple) else f),
                'accepted text faults the VM: {} {} at {} | {}'.format(
                    stop[1], stop[2], f, text[:300]), replay)
            return
        ctx.count('script-own-error:' + str(stop[1]))
    if r.mon is not None and r.mon.faults and not r.stops:
        # leftovers at the end of a run (quiescence) are C05's business for
        # well-formed programs; here only faults of the machinery count
        hard = [f for f in r.mon.faults if not f.startswith('run ended with')]
        if hard:
            ctx.violation('accepted:automaton:' + re.sub(
                r'[0-9]+', 'N', hard[0])[:50],
                '{} | {}'.format(hard[:2], text[:300]), replay)
        else:
            ctx.count('leftover-at-end-of-run')
    if r.thread_exc:
        ctx.violation('accepted:thread-exception', repr(r.thread_exc[:1]),
                      replay)


SHARED = [Parser()]


def judge(ctx, text, cls, must_reject=None):
    replay = {'class': cls, 'text': text}
    verdict, detail = compile_monitor(text)
    ctx.count('{}:{}'.format(cls, verdict.split(':')[0]))
    ntok = len(text.split())
    ctx.case('T:' + sig(text), nontrivial=ntok >= 2)
    if verdict not in ('accepted', 'rejected'):
        ctx.violation('compiler:' + verdict, '{} | input: {!r}'.format(
            detail, text[:300]), replay)
        return verdict
    # the same text through a compiler object that has seen every earlier
    # text of this shard: "for every input text" leaves no room for history
    used, _ = compile_monitor(text, SHARED[0])
    if used != verdict:
        ctx.violation('verdict-depends-on-earlier-texts:' + (
            'accepted-instead-of-rejected' if used == 'accepted'
            else 'rejected-instead-of-accepted' if used == 'rejected'
            else used.split(':')[0]),
            'a compiler that compiled other texts before says {!r}, a fresh '
            'one {!r} | {}'.format(used, verdict, text[:300]), replay)
        SHARED[0] = Parser()
    else:
        ctx.count('verdicts_equal_on_used_compiler')
    if verdict == 'accepted' and must_reject:
        ctx.violation('accepted:rule-broken:' + must_reject,
                      'rule "{}" broken but accepted | {}'.format(
                          must_reject, text[:500]), replay)
    if verdict == 'rejected':
        # a rejected text leaves no program that could run
        try:
            job = ScriptJob.from_string(text)
            simnet.reset_log()
            env.MACHINE_STOPS.clear()
            # (the front ends queue what from_string returns without looking
            # at it: executing a job whose text was rejected does nothing --
            # bounded, in case it does something after all)
            bounded = runner.Run()
            bounded.budget_exhausted = False
            runner.install_budget(job, bounded, 2000)
            job.execute()
            if job.program is not None:
                ctx.violation('rejected:job-has-a-program',
                              'a job made from a rejected text holds a program '
                              'of {} instructions | {}'.format(
                                  len(job.program), text[:300]), replay)
            evs = [e for e in simnet.LOG if e[0] in ('dev', 'lan', 'out')
                   and e[1] != 'flush']
            if evs:
                ctx.violation('rejected:still-runs',
                              'rejected text produced events {} | {}'.format(
                                  evs[:2], text[:300]), replay)
        except Exception as ex:
            ctx.violation('compiler:crash-in-load_string:' + type(ex).__name__,
                          '{!r} | {!r}'.format(ex, text[:300]), replay)
    else:
        execute_monitor(ctx, text, replay)
    return verdict


# ---------------------------------------------------------------- generators

def class_a(rng):
    n = rng.randint(1, 15)
    return ' '.join(rng.choice(VOCAB) for _ in range(n))


def valid_tokens(rng, pop):
    prog, tags, dec = gen.generate(rng, pop, PROFILE)
    return prog, [str(t) for t in render.tokens(prog, rng)]


PROFILE = gen.profile(len=(3, 18), depth=3, nested_defs=0.15,
                      w={'routine': 5, 'call': 8})


def class_b(rng, toks):
    toks = list(toks)
    for _ in range(rng.choice([1, 1, 2, 3])):
        if not toks:
            break
        op = rng.randrange(5)
        i = rng.randrange(len(toks))
        if op == 0:
            del toks[i]
        elif op == 1:
            toks.insert(i, toks[i])
        elif op == 2:
            j = rng.randrange(len(toks))
            toks[i], toks[j] = toks[j], toks[i]
        elif op == 3:
            del toks[i:]
        else:
            toks.insert(i, rng.choice(VOCAB))
    return ' '.join(toks)


UNDEF = 'zz_undefined_9'


def class_c(rng, prog, toks):
    """returns (text, rule) with exactly one documented rule broken"""
    toks = list(toks)
    rule = rng.choice(['break-outside-loop', 'break-in-nested-routine',
                       'out-of-scope-name',
                       'assign-to-macro',
                       'redefine-macro', 'undefined-name', 'nested-routine',
                       'missing-end', 'unbalanced', 'bad-time-pattern'])
    base = ' '.join(toks)
    if rule == 'break-outside-loop':
        pos = rng.choice(['end', 'start'])
        return ('break ' + base) if pos == 'start' else (base + ' break'), rule
    if rule == 'out-of-scope-name':
        # a parameter or routine-local name used after its routine has ended
        names = out_of_scope_names(prog)
        if not names or rng.random() < 0.25:
            if rng.random() < 0.5:
                # a name first assigned inside a block within the routine
                blk = rng.choice([
                    'set "Candle" begin assign zz_q 5 stage end',
                    'set "Candle" begin repeat with zz_q from 1 to 2 stage end',
                    'repeat 2 begin assign zz_q 5 end',
                    'if {{ 1 }} assign zz_q 5',
                    'repeat all as zz_q print zz_q'])
                return base + ' define zz_f begin ' + blk + ' end ' + rng.choice(
                    ['print zz_q', 'hue zz_q', 'assign zz_w {{ zz_q + 1 }}',
                     'repeat zz_q print 1']), rule
            return base + ' define zz_f with zz_p begin assign zz_q zz_p end ' \
                + rng.choice(['print zz_p', 'hue zz_q', 'repeat zz_p print 1',
                              'set "Strip" zone zz_p']), rule
        nme = rng.choice(sorted(names))
        return base + ' ' + rng.choice(
            ['print {}', 'hue {}', 'assign zz_v {{ {} + 1 }}',
             'repeat {} begin print 1 end', 'set "Strip" zone {}',
             'if {{ {} > 1 }} print 1']).format(nme), rule
    if rule == 'break-in-nested-routine':
        # a routine body is not inside the loop its definition stands in
        loop = rng.choice(['repeat 2', 'repeat while { 1 > 2 }',
                           'repeat with zz_i from 1 to 2', 'repeat all as zz_l'])
        body = rng.choice(['break', 'begin print 1 break end',
                           'if { 1 } break'])
        return base + ' {} begin define zz_brk {} print 2 end'.format(
            loop, body), rule
    if rule == 'assign-to-macro':
        return 'define zz_m 5 ' + base + ' assign zz_m 6', rule
    if rule == 'redefine-macro':
        v = rng.choice(['6', '"s"', '5'])
        again = 'define zz_m ' + v
        # ... also from inside a routine or loop body, with or without a
        # parameter / loop variable of the same name in between
        form = rng.choice(['{}', '{}', 'define zz_f begin print 1 {} end',
                           'define zz_f with zz_m begin print zz_m {} end',
                           'define zz_f with zz_a zz_m begin {} print zz_a end',
                           'repeat with zz_m from 1 to 2 begin {} end',
                           'define zz_f begin repeat all as zz_m begin {} end end',
                           'define zz_f begin repeat 2 with zz_m from 1 to 5 '
                           'begin print zz_m {} end end',
                           'if {{ 1 }} begin {} end'])
        return 'define zz_m 5 ' + base + ' ' + form.format(again), rule
    if rule == 'undefined-name':
        form = rng.choice([
            'hue {}', 'assign zz_v {}', 'assign zz_v {{ {} + 1 }}', 'set {}',
            'on {} and "a"', 'print {}', 'println {{ 2 * {} }}',
            'repeat {} begin print 1 end', 'if {} print 1',
            'if {{ {} > 2 }} print 1', 'get {}', 'time {}',
            'repeat with zz_i from {} to 3 print 1', 'set "a" zone {}',
            'repeat in {} as zz_l print 1', 'printf "{{}}" {}',
            'repeat while {{ {} < 1 }} break', 'wait {}'])
        stmt = form.format(UNDEF)
        if rng.random() < 0.15:
            # the name on both sides of the assignment that would introduce
            # it: still undefined where it is read
            stmt = rng.choice([
                'assign {0} {{ {0} + 1 }}', 'assign {0} {0}',
                'repeat 3 begin assign {0} {{ {0} + 1 }} end',
                'assign {0} [ sqrt {0} ]', 'assign {0} {{ 2 * ( {0} ) }}',
                'define zz_g begin assign {0} {{ {0} - 1 }} end',
                'if {{ 1 }} assign {0} {{ 1 + {0} }}']).format(UNDEF)
        if rng.random() < 0.2:
            # a word that names one of the lexer's internal token kinds is
            # just another undefined name -- alone at command level, before
            # the rest of the script or before something else that is wrong
            w = rng.choice(INTERNAL)
            return rng.choice([w + ' ' + base, base + ' ' + w,
                               base + ' ' + w + ' break',
                               base + ' ' + w + ' time at 25:99',
                               'hue 5 ' + w + ' ' + base + ' end',
                               form.format(w) + ' ' + base]), rule
        if rng.random() < 0.5:
            return base + ' ' + stmt, rule
        return stmt + ' ' + base, rule
    if rule == 'nested-routine':
        inner = rng.choice(['define zz_in on all', 'define zz_in begin print 1 end',
                            'define zz_in with a print a'])
        # ... directly in the body, or inside a block that the body contains
        # (a matrix block, a loop, a branch)
        where = rng.choice(['{}', '{}', 'set "Candle" begin {} end',
                            'set "Candle" begin stage {} end',
                            'set "Candle" begin repeat 2 begin {} end end',
                            'repeat 2 begin {} end', 'if {{ 1 }} {}',
                            'if {{ 0 }} print 1 else begin {} end',
                            'repeat all as zz_l begin {} end'])
        return base + ' define zz_out begin print 1 ' + where.format(inner) \
            + ' end', rule
    if rule == 'missing-end':
        idx = [i for i, t in enumerate(toks) if t == 'end']
        if not idx:
            return base + ' if 1 begin print 1', rule
        del toks[rng.choice(idx)]
        return ' '.join(toks), rule
    if rule == 'unbalanced':
        idx = [i for i, t in enumerate(toks) if t in '{}[]()' and len(t) == 1]
        if not idx:
            return base + ' print { ( 1 + 2 }', rule
        del toks[rng.choice(idx)]
        return ' '.join(toks), rule
    bad = rng.choice(['12:8*', '25:00', '24:00', '**:08', '12:5', '*', '1:60',
                      '3*:00', '12:', ':30', '1:2:3', '8:0a', '99:99', '*:6*'])
    return base + ' time at ' + bad + ' wait', rule


def out_of_scope_names(prog):
    """parameters and routine-local names that are not also defined at the
    top level of the program (so they are undefined after the routine)"""
    top, inner = set(), set()

    def walk(node, in_routine):
        if isinstance(node, list):
            if node and node[0] == 'routine':
                inner.update(node[2])
                walk(node[3], True)
                top.add(node[1])
                return
            if node and node[0] == 'assign' and isinstance(node[1], str):
                (inner if in_routine else top).add(node[1])
            if node and node[0] == 'define':
                top.add(node[1])
            for x in node:
                walk(x, in_routine)
        elif isinstance(node, dict):
            for k in ('var', 'lvar'):
                if isinstance(node.get(k), str):
                    (inner if in_routine else top).add(node[k])
            w = node.get('with')
            if isinstance(w, list) and len(w) > 1:
                (inner if in_routine else top).add(w[1])
            for x in node.values():
                walk(x, in_routine)
    walk(prog, False)
    return inner - top


INSIDE = ['on "Top"', 'off "Top"', 'on group "Pole"', 'off location "Home"',
          'set "Top"', 'set "Strip" zone 1', 'set group "G2"', 'get "Top"',
          'wait', 'units raw', 'time 1', 'time at 8:00', 'define zz_k 1',
          'print 1', 'println', 'printf "{}" 1', 'set default', 'on default',
          'set "Candle" row 1', 'set "Candle" begin stage row 1 end',
          'return', 'break', 'on all', 'set all', 'stage row 0', 'hue 5',
          'stage row 0 on "Top" stage row 1', 'repeat 2 on "Top"',
          'if 1 off "a"', 'assign zz_v 2', 'zz_r', '[ zz_r ]',
          'repeat all as zz_l on zz_l', 'repeat 2 with zz_i from 0 to 1 '
          'stage row zz_i', 'set "a" and "Top"', 'on "a" and "Candle"',
          # power aimed at a part of a light
          'on "Strip" zone 5', 'off "Top" and "Strip" zone 2 4',
          'on "Candle" row 1', 'off "Candle" row 0 column 1 2',
          'on "Candle" begin stage row 1 end', 'off "Strip" zone 1 and "a"',
          'get "Strip" zone 2', 'get "Candle" row 1', 'on group "Pole" zone 1',
          # a block where a stage expects rows and columns
          'stage begin print 1 end', 'stage begin stage row 1 end',
          'if { 1 } stage begin on "Top" end', 'stage begin end',
          'repeat 2 stage begin print 1 end']


def class_f(rng):
    """every kind of command inside a begin/end block of a matrix light (and
    around it): accepted or rejected, but never a program that faults the VM"""
    inner = ' '.join(rng.choice(INSIDE) for _ in range(rng.randint(1, 3)))
    form = rng.choice([
        '{} print 1', 'define zz_q begin {} end zz_q',
        'set "Candle" begin {} end print 1',
        'set "Candle" begin stage row 1 {} stage column 2 end print 1',
        'define zz_r begin on "Top" return 1 end set "Candle" begin {} end',
        'define zz_f begin set "Candle" begin {} end end zz_f print 1',
        'repeat 2 begin set "Candle" begin {} end end',
        'set "Top" begin {} end', 'set "Nobody" begin {} end print 1',
        'on "Candle" begin {} end', 'set "Candle" row 1 begin {} end'])
    return form.format(inner)


EXPR_TOKENS = ['1', '2', '0.5', 'zz_x', '(', ')', '+', '-', '*', '/', '%', '^',
               'and', 'or', 'not', '<', '>=', '==', '!=', '"^"', '"+"', '"-"',
               '"and"', '"("', '")"', '"{"', '"}"', '[', 'zz_f', ']', '{', '}',
               'hue', '"a"', '-', '^', '^']


def class_g(rng):
    """token soups inside braces, quoted operators among them"""
    toks = [rng.choice(EXPR_TOKENS) for _ in range(rng.randint(2, 10))]
    if rng.random() < 0.3:
        # an operator, then the same operator in quotes
        op = rng.choice(['+', '-', '*', '/', '%', '^', 'and', 'or', '<', '=='])
        toks = [rng.choice(['1', '2', 'zz_x']), op, rng.choice(['3', 'zz_x']),
                '"{}"'.format(op)] + toks[:rng.randint(0, 3)]
    if rng.random() < 0.25:
        # braces inside braces, `not` before and between operands: accepted
        # or rejected, but never code that leaves the evaluation stack short
        # or long
        toks = [rng.choice(['{ 0 * 2 }', 'not { 1 }', '1 + { 2 }', '{ { 1 } }',
                            '( { 2 } )', 'zz_x not 5', 'not not 1', '- { 1 }',
                            '{ zz_x } * { zz_x }', 'not { not { 0 } }',
                            '2 ^ { 1 + 1 }', '{ 1 } { 2 }', 'not', '{ }'])
                for _ in range(rng.randint(1, 3))]
        if rng.random() < 0.5:
            toks = [' {} '.format(rng.choice(['+', 'and', '*', '<'])).join(toks)]
    form = rng.choice(['assign zz_x 3 assign zz_y {{ {} }}',
                       'assign zz_x 3 print {{ {} }}',
                       'define zz_f begin return 2 end assign zz_x 1 '
                       'if {{ {} }} print 1',
                       'assign zz_x 2 hue {{ {} }} set all',
                       'assign zz_x 2 repeat while {{ {} }} break'])
    return form.format(' '.join(toks))


def class_e(rng):
    """long runs of one token or character: what makes a careless regular
    expression or a recursive descent go exponential or overflow"""
    if rng.random() < 0.06:
        # one number of thousands of digits, wherever a number may stand
        digits = rng.choice('123456789') * rng.choice([4299, 4300, 4301, 5000,
                                                        9000])
        return rng.choice(['hue {}', 'print {}', 'assign zz_big {}',
                           'print {{ {} + 1 }}', 'define zz_m {}',
                           'repeat {} break', 'set "Strip" zone {}',
                           'time {}', 'print {{ 1.{} }}', 'hue -{}']
                          ).format(digits)
    k = rng.choice([20, 40, 80, 200, 500, 1500, 5000])
    unit = rng.choice(['\\', '\\a', '\\"', '{', '(', '[', '-', '- ', '{ ',
                       '( ', '[ f ', 'not ', '"', '"a', '#', '*', ':', '*:',
                       '1', '1.', '.', '0:', 'a_', '%', '* 2 ', '+ 1 ',
                       'begin ', 'repeat ', 'if 1 ', 'define f ', 'and "a" ',
                       'zone 1 ', 'é', '\t', '}', ')', ']', 'end '])
    head = rng.choice(['', '"', 'print "', 'print { 1 ', 'set "a', 'hue ',
                       'print ', 'time at ', 'define z "', 'printf "',
                       'set "a" and "a" ', 'repeat '])
    tail = rng.choice(['', '', '"', ' }', ' end', '\n"', ' x'])
    return (head + unit * k + tail)[:12000]


SPELLINGS = ['0', '1', '2', '3', '5', '7', '10', '12', '2.5', '100', '1:30',
             '12:00']


def class_h(rng):
    """one spelling used as a quoted string and as a number (or time pattern)
    in the same text, in either order: a valid script that must be accepted
    and must run without a fault"""
    if rng.random() < 0.25:
        # size: an expression nested dozens of levels deep, a loop over dozens
        # of names, a long `and` list, a routine of a few hundred commands --
        # valid texts that must be accepted and run to their end
        k = rng.choice([12, 31, 33, 40, 64, 100])
        return rng.choice([
            'print { ' + '1 + ( ' * k + '1' + ' )' * k + ' } time 0',
            'repeat in ' + ' and '.join(rng.choice(
                ['"Top"', '"Strip"', '"Candle"', 'group "Pole"'])
                for _ in range(k)) + ' as zz_l begin on zz_l end time 0',
            'on ' + ' and '.join('"Top"' for _ in range(k)) + ' time 0',
            'define zz_long begin ' + ' '.join(
                'hue {} set "Top"'.format(j) for j in range(k)) +
            ' end zz_long zz_long time 0',
            'assign zz_t 0 repeat {} begin assign zz_t {{ zz_t + 1 }} end '
            'print zz_t time 0'.format(k * 10),
            'printf "' + ' '.join('{' + str(j) + '}' for j in range(k % 20 + 2))
            + '" ' + ' '.join(str(j) for j in range(k % 20 + 2)) + ' time 0'])
    v = rng.choice(SPELLINGS)
    if ':' in v:
        parts = ['print "{}"'.format(v), 'time at {} on all'.format(v),
                 'define zz_s "{}" print zz_s'.format(v),
                 'define zz_p {} time at zz_p off all'.format(v)]
        rng.shuffle(parts)
        return ' '.join(parts[:rng.randint(2, 4)]) + ' time 0'
    as_text = ['print "@"', 'define zz_s "@" println zz_s',
               'assign zz_t "@" print zz_t', 'printf "{} @" "@"',
               'define zz_show with zz_x begin print zz_x end zz_show "@"',
               'on "@"', 'set "@" and "Top"']
    as_number = ['assign zz_n { @ + 1 } print zz_n', 'hue @ set "Top"',
                 'define zz_m @ brightness zz_m', 'if { @ > 0 } print 1',
                 'assign zz_a @ assign zz_b { zz_a * 2 } print zz_b',
                 'time @ on all']
    if '.' not in v:
        as_number += ['repeat @ print 1', 'set "Strip" zone @',
                      'repeat with zz_i from 0 to @ print zz_i',
                      'set "Candle" row @']
    parts = [rng.choice(as_text), rng.choice(as_number)]
    if rng.random() < 0.5:
        parts.append(rng.choice([t for t in as_text + as_number
                                 if t not in parts]))
    rng.shuffle(parts)
    return ' '.join(parts).replace('@', v) + ' time 0'


def class_d(rng):
    n = rng.randint(1, 60)
    data = bytes(rng.randrange(256) for _ in range(n))
    if rng.random() < 0.5:
        return data.decode('latin-1')
    return data.decode('utf-8', errors='replace')


def run_shard(ctx):
    env.configure(simnet.make_devices(POP))
    n = N[ctx.tier]
    rng = ctx.rng('c06', ctx.shard)
    base = None
    for i in range(ctx.shard, n, ctx.nshards):
        k = (i // ctx.nshards) % 8
        if base is None or k == 0:
            try:
                base = valid_tokens(rng, POP)
            except gen.TooBig:
                continue
            v = judge(ctx, ' '.join(base[1]), 'valid')
            if v == 'rejected':
                ctx.count('valid-base-rejected')
        if k in (1, 2, 3):
            text = class_a(rng)
            judge(ctx, text, 'A')
        elif k in (4, 5):
            judge(ctx, class_b(rng, base[1]), 'B')
        elif k == 6:
            text, rule = class_c(rng, *base)
            ctx.count('rule:' + rule)
            judge(ctx, text, 'C', must_reject=rule)
        elif k == 7:
            if (i // (8 * ctx.nshards)) % 5 == 4:
                text = class_h(rng)
                if judge(ctx, text, 'H') == 'rejected':
                    ctx.violation('rejected:valid-text:one-spelling-two-kinds',
                                  'a valid script is rejected | ' + text[:300],
                                  {'class': 'H', 'text': text})
            elif (i // (8 * ctx.nshards)) % 5 == 3:
                judge(ctx, class_e(rng), 'E')
            elif (i // (8 * ctx.nshards)) % 5 == 2:
                judge(ctx, class_f(rng), 'F')
            elif (i // (8 * ctx.nshards)) % 5 == 1:
                judge(ctx, class_g(rng), 'G')
            else:
                judge(ctx, class_d(rng), 'D')
        if i % 5000 < ctx.nshards:
            ctx.sample({'class': 'A', 'text': class_a(rng)})
    ctx.sample({'class': 'C', 'text': class_c(rng, *base)[0][:300]})


POP = [
    dict(label='Top', group='Pole', location='Home'),
    dict(label='a', group='Pole', location='Home'),
    dict(label='Strip', group='G2', location='Home', kind='mz', zones=16),
    dict(label='Candle', group='G2', location='Out', kind='matrix', height=6,
         width=5),
]


def finalize(merged):
    c = merged['counters']
    for need in ('A:rejected', 'A:accepted', 'B:rejected', 'B:accepted',
                 'C:rejected', 'D:rejected', 'E:rejected', 'F:rejected',
                 'F:accepted', 'G:rejected', 'G:accepted',
                 'verdicts_equal_on_used_compiler', 'accepted_executed'):
        if not c.get(need):
            merged['inconclusive'].append('class never observed: ' + need)
    merged['coverage_extra'] = {
        'accepted_and_executed': c.get('accepted_executed', 0),
        'script_own_errors': {k: v for k, v in c.items()
                              if k.startswith('script-own-error')}}


def replay(doc):
    from bvf.harness import Ctx
    env.configure(simnet.make_devices(POP))
    ctx = Ctx('C06', 'quick', 0, 0, 1)
    r = doc['replay']
    print(repr(r['text']))
    print(judge(ctx, r['text'], r['class']))
    for v in ctx.violations:
        print('VIOLATION property=C06', v['mech'], v['what'][:300])
    return 1 if ctx.violations else 0


signal.signal(signal.SIGVTALRM, _alarm)
