"""C11 -- time-of-day patterns match exactly the times they denote; `or` means OR.

Monitors (all observe the real TimePattern / Lex / Parser / Machine / Clock):
  T  table:    every well-formed pattern string the library turns into a
               pattern object is compared, for all 1440 times of day, with a
               position-wise matcher written from the statement (exhaustive).
  A  accept:   `time at <s> on all` through the real compiler; accepted  <=>
               s is well formed and matches at least one time of day
               (`*:*` not required either way).
  O  or-lists: `time at P1 or P2 [or P3]` is run on the VM; the pattern object
               handed to the clock is tabulated at the moment of the call and
               compared with the union of the Pi tables; the production
               Clock.wait_until is then driven minute by minute on a virtual
               clock from several start minutes and the minute of return is
               compared with the first matching minute.
  U  use:      after any use (literal, macro, variable; loops; unions) every
               pattern is tabulated again and must be unchanged.
"""
import itertools

from bvf import env, simnet
from bvf.env import injection, i_lib
from bardolph.controller.script_job import ScriptJob
from bardolph.lib import clock as clock_mod
from bardolph.lib.time_pattern import TimePattern
from bardolph.parser.parse import Parser

ID = 'C11'
MANIFEST = {
    'category': 'exploration',
    'technique': 'reference-model monitor over an exhaustive table + compile '
                 'accept/reject oracle + pattern tabulated at the clock boundary',
    'text': 'Every well-formed pattern is compared with a position-wise matcher '
            'on all 1440 times (exhaustive); compiler acceptance is compared '
            'with satisfiability for all well-formed strings and (thorough) all '
            '3.26 M strings over 0-9*: up to length 6; or-lists and repeated use '
            'are observed on the running VM at the clock boundary. Exhaustive '
            'for the table, sampled for or-lists beyond the reduced alphabet.'
            ' Or-lists run to 33 patterns.',
    'note': 'Trusted: the 10-line reference matcher; the minute-stepping virtual '
            'clock used to drive Clock.wait_until. `*:*` is not judged.',
}
LEVEL = 'exploration'
SHARDS = {'quick': 16, 'thorough': 16}
EXHAUSTIVE = {'quick': False, 'thorough': False}
RULE = ('T: all 15851 well-formed pattern strings x 1440 times through the real '
        'from_string/match against a position-wise matcher (enumeration, both '
        'tiers); A: compile accept/reject of `time at <s> on all` for all 15851 '
        'well-formed strings (both tiers) and strings over "0-9*:" up to length '
        '6 (quick: seeded sample of 60000, thorough: all 3.26 M); O: or-lists: '
        'all pairs (and, thorough, all triples) over a reduced alphabet of 25 '
        'patterns plus random pairs/triples of accepted patterns, run on the '
        'VM; U: order-of-use scripts.  A case is non-trivial when the string '
        'is well-formed or, for malformed strings, contains a colon; distinct '
        '= distinct strings / distinct pattern tuples.')
ASSUMPTIONS = [
    'hour field of one digit d denotes hour d; two-character fields are '
    'compared with the two-digit form of the hour/minute',
    '`*:*` (documented as meaningless but satisfiable) is not required to be '
    'accepted or rejected',
    'the virtual clock advances one minute per Clock.wait() call in the '
    'wait_until drive; tick-level interleavings are C10/C09 territory',
]

DIG = '0123456789'
H_FIELDS = ['*'] + ['*' + d for d in DIG] + [d + '*' for d in DIG] + \
    list(DIG) + [a + b for a in DIG for b in DIG]
M_FIELDS = [a + b for a in DIG for b in DIG] + [d + '*' for d in DIG] + \
    ['*' + d for d in DIG] + ['*']
WELL_FORMED = [h + ':' + m for h in H_FIELDS for m in M_FIELDS]
assert len(WELL_FORMED) == 15851
WF_SET = set(WELL_FORMED)


def field_match(field, number):
    if field == '*':
        return True
    if len(field) == 1:
        return number == int(field)
    two = '{:02d}'.format(number)
    return all(f in ('*', t) for f, t in zip(field, two))


def spec_table(pattern):
    """frozenset of minute-of-day numbers the well-formed pattern denotes"""
    h, m = pattern.split(':')
    hs = [x for x in range(24) if field_match(h, x)]
    ms = [x for x in range(60) if field_match(m, x)]
    return frozenset(a * 60 + b for a in hs for b in ms)


def real_table(tp):
    return frozenset(h * 60 + m for h in range(24) for m in range(60)
                     if tp.match(h, m))


def fmt_minutes(s, cap=6):
    xs = sorted(s)
    txt = ','.join('{}:{:02d}'.format(x // 60, x % 60) for x in xs[:cap])
    return txt + ('...(+{})'.format(len(xs) - cap) if len(xs) > cap else '')


class TableClock(i_lib.Clock):
    """Recording clock that tabulates the pattern at the moment of the call."""
    def __init__(self):
        self.calls = []

    def start(self): pass
    def stop(self): pass
    def reset(self): pass
    def pause_for(self, _): pass

    def wait_until(self, pattern):
        self.calls.append((pattern, real_table(pattern)))


def compile_accepts(text):
    """returns (accepted, diagnostics, exception-or-None)"""
    parser = Parser()
    try:
        ok = parser.parse(text)
    except Exception as ex:   # C06 territory, but it decides nothing here
        return None, '', ex
    return bool(ok), parser.get_errors(), None


def run_script(text, clk):
    injection.bind_instance(clk).to(i_lib.Clock)
    job = ScriptJob.from_string(text)
    if job.program is None:
        return False
    env.MACHINE_STOPS.clear()
    job.execute()
    return True


# ---------------------------------------------------------------------------

def part_table(ctx):
    n = 0
    for i, p in enumerate(WELL_FORMED):
        if not ctx.mine(i):
            continue
        n += 1
        spec = spec_table(p)
        tp = TimePattern.from_string(p)
        if tp is None:
            ctx.count('from_string_none')
            continue            # acceptance is judged by part A
        got = real_table(tp)
        ctx.count('table_entries', 1440)
        if got and got != spec:
            extra, missing = got - spec, spec - got
            mech = 'table:' + ('extra' if extra else 'missing')
            ctx.violation(
                mech, 'pattern {!r}: matches {} wrongly, misses {}'.format(
                    p, fmt_minutes(extra), fmt_minutes(missing)),
                {'part': 'table', 'pattern': p})
        elif got:
            ctx.count('tables_equal')
    ctx.cases_enumerated(n)
    ctx.sample({'part': 'table', 'pattern': WELL_FORMED[ctx.shard * 37 % 15851],
                'spec_minutes': fmt_minutes(spec_table(
                    WELL_FORMED[ctx.shard * 37 % 15851]))})


def expect_accept(s):
    """True / False / None (= not required either way)"""
    if s == '*:*':
        return None
    if s in WF_SET:
        return len(spec_table(s)) > 0
    return False


def judge_accept(ctx, s):
    text = 'time at {} on all'.format(s)
    ok, diag, ex = compile_accepts(text)
    want = expect_accept(s)
    if ex is not None:
        ctx.count('compiler_raised')      # reported by C06, not here
        return
    if want is None:
        return
    if ok and not want:
        kind = 'unsatisfiable' if s in WF_SET else 'malformed'
        ctx.violation('accept:' + kind,
                      '`{}` accepted although the pattern is {}'.format(
                          text, kind), {'part': 'accept', 'string': s})
    elif not ok and want:
        ctx.violation('reject:valid',
                      '`{}` rejected: {}'.format(text, diag.strip()),
                      {'part': 'accept', 'string': s})
    else:
        ctx.count('accept_agree' if ok else 'reject_agree')


ALPHA = DIG + '*:'


def nth_string(i):
    """i-th string over ALPHA in length-then-lexicographic order (length 1..6)"""
    n = 1
    while i >= 12 ** n:
        i -= 12 ** n
        n += 1
    out = []
    for _ in range(n):
        out.append(ALPHA[i % 12])
        i //= 12
    return ''.join(reversed(out))


TOTAL_STRINGS = sum(12 ** n for n in range(1, 7))


def part_accept(ctx):
    n = 0
    for i, p in enumerate(WELL_FORMED):
        if ctx.mine(i):
            judge_accept(ctx, p)
            n += 1
    ctx.cases_enumerated(n)
    if ctx.tier == 'thorough':
        n = nt = 0
        for i in range(ctx.shard, TOTAL_STRINGS, ctx.nshards):
            s = nth_string(i)
            if s in WF_SET:
                continue
            judge_accept(ctx, s)
            n += 1
            nt += ':' in s
        ctx.cases_enumerated(n, nt)
        ctx.count('malformed_strings', n)
    else:
        rng = ctx.rng('accept', ctx.shard)
        per = 60000 // ctx.nshards
        for _ in range(per):
            # bias towards near-misses: mutate a well-formed string half the time
            if rng.random() < 0.5:
                s = list(rng.choice(WELL_FORMED))
                op = rng.randrange(3)
                pos = rng.randrange(len(s) + (op == 1))
                if op == 0 and len(s) > 1:
                    del s[min(pos, len(s) - 1)]
                elif op == 1 and len(s) < 6:
                    s.insert(pos, rng.choice(ALPHA))
                else:
                    s[min(pos, len(s) - 1)] = rng.choice(ALPHA)
                s = ''.join(s)
            else:
                s = nth_string(rng.randrange(TOTAL_STRINGS))
            if s in WF_SET or not s:
                continue
            judge_accept(ctx, s)
            ctx.case('A:' + s, nontrivial=':' in s)
            ctx.count('malformed_strings')
    ctx.sample({'part': 'accept', 'text': 'time at 12:8* on all',
                'expected': 'rejected'})


REDUCED = [h + ':' + m for h in ('0', '1', '2*', '*3', '*')
           for m in ('00', '30', '*5', '5*', '59')]


def first_match_from(table, start):
    for d in range(1440):
        if (start + d) % 1440 in table:
            return (start + d) % 1440
    return None


class MinuteClock(clock_mod.Clock):
    """Production Clock whose wait() is a one-minute step of a virtual
    time of day (no threads, no real time)."""
    now_minute = 0
    steps = 0

    def start(self): pass

    def wait(self):
        MinuteClock.now_minute = (MinuteClock.now_minute + 1) % 1440
        MinuteClock.steps += 1
        if MinuteClock.steps > 3000:
            raise RuntimeError('wait_until did not return within two days')
        return True


def _vnow():
    class _T:
        hour = MinuteClock.now_minute // 60
        minute = MinuteClock.now_minute % 60
    return _T


class _VDatetime:
    @staticmethod
    def now():
        return _vnow()


def judge_or(ctx, pats, starts):
    text = 'time at ' + ' or '.join(pats) + ' wait'
    want = frozenset().union(*[spec_table(p) for p in pats])
    clk = TableClock()
    if not run_script(text, clk):
        ctx.violation('or:rejected', '`{}` rejected'.format(text),
                      {'part': 'or', 'patterns': pats})
        return
    if env.MACHINE_STOPS:
        ctx.violation('or:vm-fault', '`{}`: {}'.format(
            text, env.MACHINE_STOPS[0][:3]), {'part': 'or', 'patterns': pats})
        return
    if len(clk.calls) != 1:
        ctx.violation('or:no-wait', '`{}` made {} time-of-day waits'.format(
            text, len(clk.calls)), {'part': 'or', 'patterns': pats})
        return
    got = clk.calls[0][1]
    ctx.count('or_tables')
    if got != want:
        extra, missing = got - want, want - got
        ctx.violation(
            'or:' + ('cross-product' if extra else 'missing'),
            '`{}` also waits for {} ; never for {}'.format(
                text, fmt_minutes(extra), fmt_minutes(missing)),
            {'part': 'or', 'patterns': pats})
        return
    # minute of return through the production Clock.wait_until
    saved = clock_mod.datetime
    clock_mod.datetime = _VDatetime
    try:
        for st in starts:
            mclk = MinuteClock()
            MinuteClock.now_minute, MinuteClock.steps = st, 0
            injection.bind_instance(mclk).to(i_lib.Clock)
            job = ScriptJob.from_string(text)
            env.MACHINE_STOPS.clear()
            job.execute()
            ret = MinuteClock.now_minute
            exp = first_match_from(want, st)
            ctx.count('or_returns')
            if env.MACHINE_STOPS or ret != exp:
                ctx.violation(
                    'or:return-minute',
                    '`{}` started at {} returned at {} (expected {}) {}'.format(
                        text, fmt_minutes([st]), fmt_minutes([ret]),
                        fmt_minutes([exp]) if exp is not None else None,
                        env.MACHINE_STOPS[:1]),
                    {'part': 'or', 'patterns': pats, 'start': st})
                break
    finally:
        clock_mod.datetime = saved


def part_or(ctx):
    rng = ctx.rng('or', ctx.shard)
    pairs = list(itertools.product(REDUCED, repeat=2))
    combos = pairs
    if ctx.tier == 'thorough':
        combos = pairs + list(itertools.product(REDUCED, repeat=3))
    n = 0
    for i, pats in enumerate(combos):
        if not ctx.mine(i):
            continue
        starts = [rng.randrange(1440) for _ in range(2)] + [0, 1439]
        judge_or(ctx, list(pats), starts)
        n += 1
    ctx.cases_enumerated(n)
    valid = [p for p in WELL_FORMED if spec_table(p) and p != '*:*']
    k = (20000 if ctx.tier == 'thorough' else 1600) // ctx.nshards
    for _ in range(k):
        pats = [rng.choice(valid) for _ in range(rng.choice(
            (2, 2, 3, 4, 2, 3, 9, 10, 12, 20, 33)))]
        if len(pats) > 8 and rng.random() < 0.6:
            # a long list of exact times, several in the same hour
            pats = ['{}:{:02d}'.format(rng.choice([6, 7, 7, 18, 22]),
                                       rng.randrange(60))
                    for _ in pats]
            ctx.count('long_or_lists')
        judge_or(ctx, pats, [rng.randrange(1440) for _ in range(2)])
        ctx.case('O:' + ' '.join(pats))
    ctx.sample({'part': 'or', 'script': 'time at 0:00 or 1:30 wait',
                'expected_minutes': fmt_minutes(
                    spec_table('0:00') | spec_table('1:30'))})


USE_TEMPLATES = [
    # (script, list of expected pattern-lists, one per time-of-day wait)
    ('define p {a} repeat 2 begin time at p or {b} wait end time at p wait',
     lambda a, b: [[a, b], [a, b], [a]]),
    ('repeat 3 begin time at {a} or {b} wait end',
     lambda a, b: [[a, b]] * 3),
    ('define p {a} define q {b} time at p or q wait time at q wait '
     'time at p wait time at q or p wait',
     lambda a, b: [[a, b], [b], [a], [b, a]]),
    ('define p {a} define f begin time at p or {b} wait end f f time at p wait',
     lambda a, b: [[a, b], [a, b], [a]]),
    ('time at {a} wait time at {a} or {b} wait time at {a} wait',
     lambda a, b: [[a], [a, b], [a]]),
]


def part_use(ctx):
    rng = ctx.rng('use', ctx.shard)
    valid = [p for p in WELL_FORMED if spec_table(p) and p != '*:*']
    k = (8000 if ctx.tier == 'thorough' else 640) // ctx.nshards
    for j in range(k):
        a, b = rng.choice(valid), rng.choice(valid)
        if rng.random() < 0.5:
            a, b = rng.choice(REDUCED), rng.choice(REDUCED)
        ti = rng.randrange(len(USE_TEMPLATES))
        tmpl, expect = USE_TEMPLATES[ti]
        text = tmpl.replace('{a}', a).replace('{b}', b)
        clk = TableClock()
        ctx.case('U:{}:{}:{}'.format(ti, a, b),
                 nontrivial=spec_table(a) != spec_table(b))
        if not run_script(text, clk):
            ctx.violation('use:rejected', '`{}` rejected'.format(text),
                          {'part': 'use', 'script': text})
            continue
        if env.MACHINE_STOPS:
            ctx.violation('use:vm-fault', '`{}`: {}'.format(
                text, env.MACHINE_STOPS[0][:3]), {'part': 'use', 'script': text})
            continue
        want = [frozenset().union(*[spec_table(p) for p in ps])
                for ps in expect(a, b)]
        got = [t for _, t in clk.calls]
        ctx.count('use_waits', len(got))
        if got != want:
            idx = next((i for i, (g, w) in enumerate(zip(got, want)) if g != w),
                       min(len(got), len(want)))
            detail = ''
            if idx < len(got) and idx < len(want):
                detail = 'extra {} missing {}'.format(
                    fmt_minutes(got[idx] - want[idx]),
                    fmt_minutes(want[idx] - got[idx]))
            ctx.violation(
                'use:pattern-changed',
                '`{}`: wait #{} of {} (expected {}) has a different table: {}'
                .format(text, idx, len(got), len(want), detail),
                {'part': 'use', 'script': text})
    ctx.sample({'part': 'use', 'script': USE_TEMPLATES[0][0]
                .replace('{a}', '8:00').replace('{b}', '9:30')})


def run_shard(ctx):
    env.configure([simnet.SimDevice('L', 'G', 'P')])
    part_table(ctx)
    part_accept(ctx)
    part_or(ctx)
    part_use(ctx)


def finalize(merged):
    c = merged['counters']
    for need in ('table_entries', 'or_tables', 'use_waits'):
        if not c.get(need) and not merged['violations']:
            merged['inconclusive'].append('monitor {} observed nothing'.format(need))
    merged['coverage_extra'] = {
        'exhaustive_subspaces': ['T table 15851x1440', 'A well-formed strings',
                                 'O pairs over the reduced alphabet'] + (
            ['A all strings over 0-9*: up to length 6',
             'O triples over the reduced alphabet']
            if merged['tier'] == 'thorough' else [])}


def replay(doc):
    env.configure([simnet.SimDevice('L', 'G', 'P')])
    ctx = __import__('bvf.harness', fromlist=['Ctx']).Ctx('C11', 'quick', 0, 0, 1)
    r = doc.get('replay') or {}
    if r.get('part') == 'table':
        tp = TimePattern.from_string(r['pattern'])
        print('spec', fmt_minutes(spec_table(r['pattern']), 20))
        print('real', fmt_minutes(real_table(tp), 20) if tp else None)
    elif r.get('part') == 'accept':
        judge_accept(ctx, r['string'])
    elif r.get('part') == 'or':
        judge_or(ctx, r['patterns'], [r.get('start', 0)])
    for v in ctx.violations:
        print('VIOLATION property=C11', v['mech'], v['what'])
    return 1 if ctx.violations else 0
