"""Numeric oracle (E4): exact rational conversions written from the property
statements (C07/C14) and docs/language.rst, never from units.py."""
from fractions import Fraction as F

U16 = 65535
U32 = 2 ** 32 - 1
TOL = F(1, 2) + F(1, 10 ** 6)


def frac(x):
    if isinstance(x, bool):
        return F(int(x))
    if isinstance(x, (int, F)):
        return F(x)
    return F(float(x))


def clamp(x, hi):
    return max(F(0), min(F(hi), x))


def ideal_hue(deg):
    return (frac(deg) % 360) / 360 * U16


def ideal_pct(p):
    return clamp(frac(p) / 100 * U16, U16)


def rgb_to_hsv_exact(r, g, b):
    """r,g,b as fractions of 1; returns (h, s, v) as fractions of 1"""
    mx, mn = max(r, g, b), min(r, g, b)
    v = mx
    if mx == mn:
        return F(0), F(0), v
    s = (mx - mn) / mx
    d = mx - mn
    if r == mx:
        h = (g - b) / d
    elif g == mx:
        h = 2 + (b - r) / d
    else:
        h = 4 + (r - g) / d
    h = (h / 6) % 1
    return h, s, v


def hsv_to_rgb_exact(h, s, v):
    if s == 0:
        return v, v, v
    i = int(h * 6)
    f = h * 6 - i
    p, q, t = v * (1 - s), v * (1 - s * f), v * (1 - s * (1 - f))
    i %= 6
    return [(v, t, p), (q, v, p), (p, v, t), (p, q, v), (t, p, v),
            (v, p, q)][i]


def ideal_color(mode, c0, c1, c2, kelvin):
    """mode in 'logical','raw','rgb'; returns [h,s,b,k] ideal raw values
    (Fractions, clamped), plus a flag list saying which are comparable."""
    k = clamp(frac(kelvin), U16)
    if mode == 'raw':
        return [clamp(frac(c0), U16), clamp(frac(c1), U16),
                clamp(frac(c2), U16), k]
    if mode == 'logical':
        return [ideal_hue(c0), ideal_pct(c1), ideal_pct(c2), k]
    r, g, b = [clamp(frac(x) / 100, 1) for x in (c0, c1, c2)]
    h, s, v = rgb_to_hsv_exact(r, g, b)
    return [h * U16, s * U16, v * U16, k]


def ideal_duration(mode, d):
    d = frac(d)
    if mode != 'raw':
        d = d * 1000
    return clamp(d, U32)


def hue_dist(a, b):
    d = abs(F(a) - F(b)) % U16       # 0 and 65535 are the same angle
    return min(d, U16 - d)


def color_ok(sent, ideal, tol=TOL, hue_free=False):
    """sent: 4 ints; ideal: 4 Fractions. Returns None or a message."""
    names = ('hue', 'saturation', 'brightness', 'kelvin')
    for i in (1, 2, 3):
        if abs(F(sent[i]) - ideal[i]) > tol:
            return '{} sent {} ideal {:.3f}'.format(
                names[i], sent[i], float(ideal[i]))
    if not hue_free and hue_dist(sent[0], ideal[0]) > tol:
        return 'hue sent {} ideal {:.3f}'.format(sent[0], float(ideal[0]))
    return None


def duration_ok(sent, ideal, tol=TOL):
    if abs(F(sent) - ideal) > tol:
        return 'duration sent {} ideal {:.3f}'.format(sent, float(ideal))
    return None


def raw_hsb_to_rgb(c):
    return hsv_to_rgb_exact(F(c[0]) / U16 % 1 if c[0] != U16 else F(0),
                            F(c[1]) / U16, F(c[2]) / U16)


def same_colour(a, b, tol_raw):
    """Compare two raw HSBK colours as colours (RGB distance), used when rgb
    units are involved: hue is meaningless when saturation or brightness is 0.
    tol_raw: tolerance in raw units on each RGB channel scaled to 65535."""
    ra, rb = raw_hsb_to_rgb(a), raw_hsb_to_rgb(b)
    return all(abs(x - y) * U16 <= tol_raw for x, y in zip(ra, rb)) and \
        abs(a[3] - b[3]) <= 1


def num_text(x):
    """Script text of a non-negative number the lexer reads back exactly."""
    if isinstance(x, int):
        return str(x)
    s = repr(float(x))
    if 'e' in s or 'E' in s or 'inf' in s or 'nan' in s:
        s = '{:f}'.format(float(x))
        if float(s) != float(x):
            s = '{:.340f}'.format(float(x)).rstrip('0')
    if s.endswith('.'):
        s += '0'
    return s


def lit(x):
    """Literal (possibly negative) for use outside braces."""
    if x < 0:
        return '-' + num_text(-x)
    return num_text(x)
