"""E3: grammar-directed generator of well-formed Bardolph programs (as ASTs).

Node shapes (JSON-able lists)
  expressions   ['num',v] ['str',s] ['var',n] ['macro',n] ['reg',r] ['pat',s]
                ['bin',op,a,b] ['neg',a] ['pos',a] ['paren',a]
                ['call',f,[args]] ['choose',k]
  statements    ['setreg',reg,e] ['time_at',[['lit',p]|['macro',n],...]]
                ['units',mode] ['action',verb,[operand,...]] ['stage',rows,cols,order]
                ['get',nx] ['wait'] ['assign',n,e] ['define',n,e]
                ['routine',n,[params],[body],compound] ['call',n,[args],bracketed]
                ['return',e|None] ['if',cond,[then],[else]|None]
                ['repeat',kind,info,[body]] ['break']
                ['print',e|None] ['println',e|None] ['printf',fmt,[args]]
  operands      ['all'] ['default'] ['light',nx] ['group',nx] ['location',nx]
                ['zone',nx,a,b|None] ['matrix',nx,rows,cols,order]
                ['mblock',nx,[stmts]]         rows/cols = [e1, e2|None] | None

Domain restrictions (DESIGN.md Appendix B): termination by construction,
no script-level run-time errors, variables assigned on every path before use,
values of loop variables never read after the loop or assigned in the body,
`units` only at top level and followed by fresh colour settings, zone and
matrix ranges inside the device and ordered, `get` only on plain lights.
"""

INT_NAMES = ['i', 'j', 'k', 'n', 'cnt', 'idx', 'Total', '_t1', 'num_lights',
             'a1', 'b2', 'level', 'm', 'q', 'steps', 'Width']
NUM_NAMES = ['x', 'y', 'z', 'brt', 'the_hue', 'sat', 'ratio', '_v', 'X9',
             'amount', 'delta', 'w']
STR_NAMES = ['lt', 'the_light', 'bulb', 'lamp', 'target', 'who']
GRP_NAMES = ['grp', 'g_name']
LOC_NAMES = ['room', 'place']
# loop variables never collide with anything else (reading one after its loop
# or assigning it in the body is outside the documented behaviour); top-level
# loop variables are globals, so routines use their own set
LOOP_VARS = {
    ('int', False): ['li', 'lj', 'lk', 'll'], ('int', True): ['ri', 'rj', 'rk', 'rl'],
    ('num', False): ['lx', 'ly', 'lz', 'lw'], ('num', True): ['rx', 'ry', 'rz', 'rw'],
    ('str', False): ['each', 'item', 'member', 'el'],
    ('str', True): ['r_each', 'r_item', 'r_member', 'r_el'],
    ('cnt', False): ['wc', 'wc2', 'wc3', 'wc4'],
    ('cnt', True): ['rwc', 'rwc2', 'rwc3', 'rwc4'],
}
ROUTINE_NAMES = ['f', 'g', 'h', 'proc', 'do_it', 'helper', 'calc', 'Blink',
                 'fade_to', '_r', 'show', 'rec']
MACRO_NAMES = ['TEN', 'kBase', 'mac', 'limit', 'two', 'first_light', 'STRIP',
               'pct', 'fmt1']

UNKNOWN_NAMES = ['Nobody', 'Missing Light', 'ghost']

DEFAULT_PROFILE = {
    'len': (5, 40), 'depth': 4,
    'w': {'setreg': 10, 'action': 12, 'print': 8, 'assign': 8, 'if': 6,
          'repeat': 6, 'call': 6, 'routine': 3, 'get': 2, 'wait': 1,
          'units': 1, 'time': 2, 'time_at': 0.3, 'printf': 2, 'break': 2,
          'return': 2, 'define': 1.5, 'default': 1},
    'markers': False,        # C05: every slot prints a unique number
    'choose_conds': 0.4,     # share of conditions that are [choose k]
    'matrix': True, 'zones': True, 'routines': True, 'lightloops': True,
    'trace_loops': 0.15,     # chance that a loop body starts by printing its variables
    'trace_vars': 0.1,       # chance of printing visible variables around calls
    'zero_cycle': False,     # `repeat 0 with v cycle` (C04)
    'choose_counts': 0.1,    # share of loop counts that are [choose k]
    'nested_defs': 0.0,      # routine definitions inside if/repeat bodies (C05)
    'max_cost': 2500,
}


def profile(**over):
    p = {k: (dict(v) if isinstance(v, dict) else v)
         for k, v in DEFAULT_PROFILE.items()}
    for k, v in over.items():
        if k == 'w':
            p['w'].update(v)
        else:
            p[k] = v
    return p


def random_population(rng, max_devices=8):
    n = rng.choice([0, 1, 2, 3, 3, 4, 5, 6, max_devices])
    gnames = rng.sample(['Pole', 'Furniture', 'Desk & Co', 'g-2', 'Zed'],
                        rng.randint(1, 4))
    lnames = rng.sample(['Home', 'Living Room', 'Out back', 'Attic'],
                        rng.randint(1, 3))
    if rng.random() < 0.25:
        # a group and a location may share a name (and a light may be called
        # like either): the three directories are separate
        lnames[0] = gnames[0]
    pool = ['Top', 'Middle', 'Bottom', 'Chair Side', 'Table', 'Lamp', 'Strip',
            'Candle', 'Tube 2', 'lamp', 'Balcony', 'a.b', "it's", 'Zz top',
            'Desk #1', '_under', 'Küche', 'Ωmega 3']
    labels = rng.sample(pool, n)
    descs = []
    for lb in labels:
        r = rng.random()
        d = {'label': lb, 'group': rng.choice(gnames),
             'location': rng.choice(lnames), 'kind': 'plain',
             'color': [rng.randrange(65536) for _ in range(3)]
             + [rng.randrange(1500, 9001)],
             'power': rng.choice([0, 65535])}
        if r < 0.2:
            d['kind'] = 'mz'
            d['zones'] = rng.choice([1, 2, 8, 16, 40, 82])
        elif r < 0.4:
            d['kind'] = 'matrix'
            d['height'], d['width'] = rng.choice(
                [(6, 5), (11, 5), (1, 1), (2, 3), (8, 8), (3, 2), (4, 7)])
        descs.append(d)
    return descs


class TooBig(Exception):
    pass


class Scope:
    def __init__(self, in_routine=False):
        self.in_routine = in_routine
        self.params = {}
        self.defined = {}      # name -> type, definitely assigned here
        self.loop_depth = 0
        self.loop_vars = set()
        self.in_matrix = None  # (height, width) while inside a matrix block
        self.returns = None


class Gen:
    def __init__(self, rng, pop, prof=None):
        self.rng = rng
        self.pop = pop
        self.p = prof or profile()
        self.lights = [d['label'] for d in pop]
        self.groups = sorted({d['group'] for d in pop})
        self.locs = sorted({d['location'] for d in pop})
        self.macros = {}        # name -> (type, value)
        self.routines = {}      # name -> dict(params=[(n,t)], ret=t|None, cost)
        self.gdefined = {}      # globals definitely assigned (top level)
        self.mode = 'logical'
        self.marker_n = 1000
        self.choose_id = 0
        self.tags = set()
        self.time_is_pattern = False

    # ------------------------------------------------------------- utilities
    def tag(self, t):
        self.tags.add(t)

    def pick(self, table):
        total = sum(w for _, w in table)
        x = self.rng.random() * total
        for k, w in table:
            x -= w
            if x <= 0:
                return k
        return table[-1][0]

    def visible(self, sc, types):
        """names readable here with one of the given types"""
        out = [n for n, t in sc.params.items() if t in types]
        out += [n for n, t in sc.defined.items()
                if t in types and n not in sc.params]
        out += [n for n, t in self.gdefined.items()
                if t in types and n not in sc.params and n not in sc.defined]
        return out

    def new_choose(self):
        self.choose_id += 1
        return ['choose', self.choose_id]

    # ------------------------------------------------------------ expressions
    def int_leaf(self, sc):
        r = self.rng.random()
        names = self.visible(sc, ('int',))
        if r < 0.35 and names:
            return ['var', self.rng.choice(names)]
        if r < 0.42:
            ms = [n for n, (t, _) in self.macros.items() if t == 'int']
            if ms:
                return ['macro', self.rng.choice(ms)]
        if r < 0.5:
            fs = [n for n, f in self.routines.items()
                  if f['ret'] == 'int' and not sc.in_matrix
                  and n != getattr(sc, 'routine_name', None)]
            if fs and not getattr(sc, 'no_calls', False) and \
                    getattr(self, 'call_nest', 0) < 2:
                f = self.rng.choice(fs)
                self.tag('call-as-operand')
                self.call_nest = getattr(self, 'call_nest', 0) + 1
                try:
                    if self.call_nest == 2:
                        self.tag('call-as-argument-of-call')
                    return ['call', f, [self.arg(sc, t, 0) for _, t in
                                        self.routines[f]['params']]]
                finally:
                    self.call_nest -= 1
        v = self.rng.choice([0, 1, 1, 2, 2, 3, 4, 5, 7, 10, 12, 100])
        if self.rng.random() < 0.08:
            v = -v
        return ['num', v]

    def int_expr(self, sc, depth=2):
        if depth <= 0 or self.rng.random() < 0.45:
            return self.int_leaf(sc)
        op = self.rng.choice(['+', '+', '-', '*', '%', '^'])
        a = self.int_expr(sc, depth - 1)
        if op == '%':
            b = ['num', self.rng.choice([2, 3, 5, 7])]
        elif op == '^':
            a = ['num', self.rng.choice([0, 1, 2, 3])]
            b = ['num', self.rng.choice([0, 1, 2, 3])]
        elif op == '*':
            b = ['num', self.rng.choice([0, 1, 2, 3])]
        else:
            b = self.int_expr(sc, depth - 1)
        if self.rng.random() < 0.1:
            a = ['neg', a] if a[0] != 'num' or a[1] >= 0 else a
        return ['bin', op, a, b]

    def cond(self, sc, depth=2):
        if self.rng.random() < self.p.get('const_conds', 0.04):
            # a condition known at compile time: a literal or a macro
            ms = [n for n, (t, _) in self.macros.items() if t in ('int', 'num')]
            self.tag('constant-condition')
            if ms and self.rng.random() < 0.5:
                return ['macro', self.rng.choice(ms)]
            return ['num', self.rng.choice([0, 0, 1, 5])]
        r = self.rng.random()
        if r < self.p['choose_conds']:
            return self.new_choose()
        if depth > 0 and r > 0.85:
            op = self.rng.choice(['and', 'or'])
            sc.no_calls = True
            try:
                # (an operand of and/or may be a plain number: zero is false,
                # anything else true)
                def operand():
                    if self.rng.random() < 0.3:
                        self.tag('number-as-logical-operand')
                        return self.rng.choice([
                            ['num', self.rng.choice([0, 1, 2, 4, 6, 2.5, 0.5])],
                            self.int_leaf(sc)])
                    return self.cond_cmp(sc)
                return ['bin', op, operand(), operand()]
            finally:
                sc.no_calls = False
        if r > 0.78:
            return self.int_leaf(sc)          # truthiness of a number
        return self.cond_cmp(sc)

    def cond_cmp(self, sc):
        op = self.rng.choice(['<', '<=', '>', '>=', '==', '!='])
        return ['bin', op, self.int_expr(sc, 1), self.int_expr(sc, 1)]

    def num_expr(self, sc, depth=2, lo=0, hi=100):
        r = self.rng.random()
        if depth <= 0 or r < 0.4:
            r2 = self.rng.random()
            names = self.visible(sc, ('num', 'int'))
            if r2 < 0.3 and names:
                return ['var', self.rng.choice(names)]
            if r2 < 0.4:
                ms = [n for n, (t, _) in self.macros.items()
                      if t in ('int', 'num')]
                if ms:
                    return ['macro', self.rng.choice(ms)]
            if r2 < 0.5 and not self.time_is_pattern:
                reg = self.rng.choice(['hue', 'saturation', 'brightness',
                                       'kelvin', 'duration', 'red', 'green',
                                       'blue'])
                self.tag('reg-as-value')
                return ['reg', reg]
            if r2 < 0.75:
                return ['num', round(self.rng.uniform(lo, hi), self.rng.choice(
                    [0, 1, 2, 3]))]
            return ['num', self.rng.randint(int(lo), int(hi))]
        if r < 0.55:
            return self.int_expr(sc, depth)
        op = self.rng.choice(['+', '-', '*', '/'])
        a = self.num_expr(sc, depth - 1, lo, hi)
        if op == '/':
            b = ['num', self.rng.choice([2, 3, 4, 8, 1.5, 0.5, 10])]
        elif op == '*':
            b = ['num', self.rng.choice([0.5, 1.1, 2, 0.25, 1])]
        else:
            b = self.num_expr(sc, depth - 1, lo, hi)
        return ['bin', op, a, b]

    def arg(self, sc, t, depth=1):
        if t == 'int':
            return self.int_expr(sc, depth)
        if t == 'num':
            return self.num_expr(sc, depth)
        return self.name_expr(sc, 'light')

    def name_expr(self, sc, what):
        """expression for a light / group / location name"""
        pool = {'light': self.lights, 'group': self.groups,
                'location': self.locs}[what]
        r = self.rng.random()
        if r < 0.12 or not pool:
            self.tag('unknown-' + what)
            return ['str', self.rng.choice(UNKNOWN_NAMES)]
        if r < 0.3:
            names = self.visible(sc, ('str:' + what,))
            if names:
                self.tag('name-by-variable')
                return ['var', self.rng.choice(names)]
        if r < 0.4:
            ms = [n for n, (t, _) in self.macros.items() if t == 'str:' + what]
            if ms:
                self.tag('name-by-macro')
                return ['macro', self.rng.choice(ms)]
        return ['str', self.rng.choice(pool)]

    # ------------------------------------------------------------- statements
    def program(self):
        lo, hi = self.p['len']
        n = self.rng.randint(lo, hi)
        sc = Scope()
        self.budget = n
        prog = self.prelude(sc)
        prog += self.block(sc, n, self.p['depth'], top=True)
        cost = self.cost(prog)
        if cost > self.p['max_cost']:
            raise TooBig(cost)
        return prog

    def prelude(self, sc):
        out = []
        r = self.rng
        if r.random() < 0.5:
            for _ in range(r.randint(1, 3)):
                name = r.choice(MACRO_NAMES)
                if name in self.macros:
                    continue
                k = r.random()
                if k < 0.4:
                    v = r.choice([0, 1, 2, 3, 10])
                    self.macros[name] = ('int', v)
                    out.append(['define', name, ['num', v]])
                elif k < 0.6:
                    v = r.choice([2.5, 50.0, 0.75, 120.5])
                    self.macros[name] = ('num', v)
                    out.append(['define', name, ['num', v]])
                elif k < 0.9 and self.lights:
                    v = r.choice(self.lights)
                    self.macros[name] = ('str:light', v)
                    out.append(['define', name, ['str', v]])
                elif self.groups:
                    v = r.choice(self.groups)
                    self.macros[name] = ('str:group', v)
                    out.append(['define', name, ['str', v]])
                self.tag('macro')
            # a macro referring to another macro
            ints = [n for n, (t, _) in self.macros.items() if t == 'int']
            if ints and r.random() < 0.3:
                name = r.choice([m for m in MACRO_NAMES if m not in self.macros]
                                or ['zz_m'])
                src = r.choice(ints)
                self.macros[name] = self.macros[src]
                out.append(['define', name, ['macro', src]])
                self.tag('macro-of-macro')
        for _ in range(r.randint(0, 4)):
            out.append(self.s_assign(sc, fresh=True))
        # macros holding time patterns
        self.pattern_macros = {}
        if r.random() < 0.15:
            for name in r.sample(['t_wake', 'T_half', 'noonish'], r.randint(1, 2)):
                pat = r.choice(['8:00', '*:30', '1*:*5', '0:0*', '23:5*'])
                self.pattern_macros[name] = pat
                self.macros[name] = ('pat', pat)
                out.append(['define', name, ['pat', pat]])
                self.tag('pattern-macro')
        # string variables that are never reassigned (names of zone / matrix
        # lights given through a variable)
        self.known_strs = {}
        special = [d['label'] for d in self.pop if d.get('kind') in ('mz', 'matrix')]
        if special and r.random() < 0.4:
            for name in r.sample(['zs0', 'zs1'], r.randint(1, 2)):
                v = r.choice(special)
                self.known_strs[name] = v
                out.append(['assign', name, ['str', v]])
                self.gdefined[name] = 'str:light'
        # never reassigned: their values are known wherever they are used
        # (zone numbers, rows and columns given as variables)
        self.known_ints = {}
        if r.random() < self.p.get('known_ints', 0.3):
            for name in r.sample(['zr0', 'zr1', 'zr2', 'zr3'], r.randint(1, 3)):
                v = r.choice([0, 0, 1, 1, 2, 3, 4, 5, 7])
                self.known_ints[name] = v
                out.append(['assign', name, ['num', v]])
                self.tag('known-int-var')
        return out

    def cost(self, stmts, depth=0):
        c = 0
        for s in stmts:
            c += 1
            t = s[0]
            if t == 'if':
                c += max(self.cost(s[2]), self.cost(s[3] or []))
            elif t == 'repeat':
                kind, info = s[1], s[2]
                n = 4
                if kind in ('count', 'interp', 'cycle') and info['n'][0] == 'num':
                    n = max(0, info['n'][1])
                elif kind in ('all',):
                    n = len(self.lights)
                elif kind == 'in':
                    n = len(self.lights) + len(info['srcs'])
                elif kind == 'range':
                    n = 8
                c += n * (1 + self.cost(s[3]))
            elif t == 'call':
                c += self.routines.get(s[1], {}).get('cost', 1)
            elif t == 'routine':
                pass
            elif t == 'action':
                for op in s[2]:
                    if op[0] == 'mblock':
                        c += self.cost(op[2])
            c += self.expr_cost(s)
        return c

    def expr_cost(self, node):
        c = 0
        if isinstance(node, list):
            if node and node[0] == 'call' and len(node) == 3 \
                    and isinstance(node[1], str):
                c += self.routines.get(node[1], {}).get('cost', 1)
            for x in node:
                if isinstance(x, (list, dict)):
                    c += self.expr_cost(x)
        elif isinstance(node, dict):
            for x in node.values():
                c += self.expr_cost(x)
        return c

    def block(self, sc, n, depth, top=False):
        out = []
        while n > 0 and self.budget > 0:
            n -= 1
            self.budget -= 1
            stmts = self.statement(sc, depth, top)
            out.extend(stmts)
            if stmts[-1][0] in ('return', 'break'):
                break          # nothing is generated behind it
        if not out:
            out.append(self.s_print(sc))
        self.fix_open_ended(out, sc)
        return out

    def fix_open_ended(self, out, sc):
        """A valueless print/println must not be followed by something the
        parser would read as its value; a valueless return is always last."""
        i = 0
        while i < len(out) - 1:
            s, nxt = out[i], out[i + 1]
            if s[0] in ('print', 'println') and s[1] is None and \
                    nxt[0] in ('setreg', 'time_at', 'call'):
                # a constant: names defined later must not leak in here
                out.insert(i + 1, ['print', ['num', 5]])
            i += 1
        for i, s in enumerate(out):
            if s[0] == 'return' and i != len(out) - 1:
                del out[i + 1:]
                break
            if s[0] == 'break' and i != len(out) - 1:
                del out[i + 1:]
                break

    def marker(self):
        self.marker_n = getattr(self, 'marker_n', 1000) + 1
        return ['print', ['num', self.marker_n]]

    def s_marker_or_print(self, sc, force_value=False):
        if self.p['markers']:
            return self.marker()
        return self.s_print(sc, force_value=True)

    def statement(self, sc, depth, top):
        w = self.p['w']
        table = []
        for k, wt in w.items():
            if wt <= 0:
                continue
            if sc.in_matrix:
                if k not in ('setreg', 'print', 'assign', 'if', 'repeat',
                             'stage', 'break', 'black', 'default'):
                    continue
            if k == 'stage' and not sc.in_matrix:
                continue
            if k in ('if', 'repeat') and depth <= 0:
                continue
            if k == 'routine' and not (self.p['routines'] and (
                    top or (self.p['nested_defs'] and not sc.in_routine
                            and not sc.in_matrix))):
                continue
            if k in ('units', 'define') and not top:
                continue
            if k == 'call' and not self.routines:
                continue
            if k == 'break' and sc.loop_depth == 0:
                continue
            if k == 'return' and not sc.in_routine:
                continue
            if k in ('units', 'time', 'time_at', 'wait', 'get') \
                    and sc.in_matrix:
                continue
            table.append((k, wt))
        if sc.in_matrix:
            table.append(('stage', 14))
        k = self.pick(table)
        out = getattr(self, 'k_' + k)(sc, depth)
        if self.p['markers'] and k not in ('routine', 'define'):
            out = [self.marker()] + out
        return out

    # each k_* returns a list of statements
    def k_setreg(self, sc, depth):
        return [self.s_setreg(sc)]

    def s_setreg(self, sc, reg=None):
        if reg is None:
            if self.mode == 'rgb':
                regs = ['red', 'green', 'blue', 'kelvin', 'duration']
            else:
                regs = ['hue', 'saturation', 'brightness', 'kelvin', 'duration']
            if self.rng.random() < 0.05:
                regs = ['hue', 'red', 'saturation', 'blue']
            reg = self.rng.choice(regs)
        if self.mode == 'raw':
            if reg == 'duration':
                e = ['num', self.rng.choice([0, 1, 500, 1500, 2500, 70000])]
            elif reg == 'kelvin' or self.rng.random() < 0.75:
                # (kelvin survives unit switches: it stays non-negative, the
                # behaviour of a switch with registers outside their ranges is
                # not specified)
                e = ['num', self.rng.randrange(65536)]
            else:
                e = self.int_expr(sc, 2)
        else:
            lo, hi = {'hue': (0, 360), 'kelvin': (1500, 9000),
                      'duration': (0, 5)}.get(reg, (0, 100))
            if self.rng.random() < 0.08:
                lo, hi = lo - 200, hi + 400
            if self.rng.random() < 0.6:
                e = ['num', round(self.rng.uniform(lo, hi), self.rng.choice(
                    [0, 0, 1, 2]))]
                if e[1] == int(e[1]) and self.rng.random() < 0.7:
                    e = ['num', int(e[1])]
            else:
                e = self.num_expr(sc, 2, max(lo, 0), hi)
            if reg in ('red', 'green', 'blue') and (
                    e[0] != 'num' or not 0 <= e[1] <= 100):
                # rgb percentages outside 0..100 denote no colour
                e = ['bin', '%', ['paren', e], ['num', 101]]
        return ['setreg', reg, e]

    def k_time(self, sc, depth):
        if self.straight and not sc.in_routine:
            self.time_is_pattern = False
        if self.mode == 'raw':
            v = self.rng.choice([0, 0, 1, 250, 1000, 2000.5])
        else:
            v = self.rng.choice([0, 0, 0.001, 0.5, 1, 2, 3.25, 60])
        return [['setreg', 'time', ['num', v]]]

    straight = True

    def k_time_at(self, sc, depth):
        if sc.in_routine or sc.loop_depth or not self.straight:
            return self.k_time(sc, depth)
        pats = [['lit', self.rng.choice(['8:00', '*:30', '1*:*5', '23:59',
                                         '0:0*', '*:*0', '12:*'])]
                for _ in range(self.rng.choice([1, 1, 2, 3]))]
        pm = getattr(self, 'pattern_macros', {})
        for k in range(len(pats)):
            if pm and self.rng.random() < 0.5:
                pats[k] = ['macro', self.rng.choice(sorted(pm))]
                self.tag('time-at-macro')
        self.tag('time-at')
        self.time_is_pattern = True
        return [['time_at', pats]]

    def k_units(self, sc, depth):
        if sc.in_routine or sc.loop_depth or not self.straight:
            return self.k_setreg(sc, depth)
        mode = self.rng.choice(['logical', 'raw', 'rgb'])
        out = []
        if self.time_is_pattern:
            out.append(['setreg', 'time', ['num', 0]])
            self.time_is_pattern = False
        out.append(['units', mode])
        self.tag('units-' + mode)
        if mode != self.mode:
            self.mode = mode
            regs = ('red', 'green', 'blue') if mode == 'rgb' else \
                ('hue', 'saturation', 'brightness')
            for r in regs:
                s = self.s_setreg(sc, r)
                if s[2][0] != 'num':
                    s[2] = ['num', 10]
                out.append(s)
        return out

    def k_default(self, sc, depth):
        self.tag('set-default')
        return [['action', 'set', [['default']]]]

    def k_black(self, sc, depth):
        """all four colour settings exactly zero (black, kelvin 0)"""
        self.tag('black-colour')
        regs = ('red', 'green', 'blue') if self.mode == 'rgb' else \
            ('hue', 'saturation', 'brightness')
        if sc.in_routine or not self.straight:
            regs = ('hue', 'saturation', 'brightness', 'red', 'green', 'blue')
        return [['setreg', r, ['num', 0]] for r in regs + ('kelvin',)]

    def k_wait(self, sc, depth):
        return [['wait']]

    def k_get(self, sc, depth):
        plain = [d['label'] for d in self.pop if d.get('kind', 'plain') == 'plain']
        r = self.rng.random()
        if plain and r < 0.8:
            nx = ['str', self.rng.choice(plain)]
            if self.rng.random() < 0.2:
                ms = [n for n, (t, v) in self.macros.items()
                      if t == 'str:light' and v in plain]
                if ms:
                    nx = ['macro', self.rng.choice(ms)]
        else:
            nx = ['str', self.rng.choice(UNKNOWN_NAMES)]
        self.tag('get')
        return [['get', nx]]

    def operand(self, sc, verb):
        r = self.rng.random()
        if r < 0.12:
            return ['all']
        if r < 0.5:
            return ['light', self.name_expr(sc, 'light')]
        if r < 0.65:
            return ['group', self.name_expr(sc, 'group')]
        if r < 0.78:
            return ['location', self.name_expr(sc, 'location')]
        if verb != 'set':
            return ['light', self.name_expr(sc, 'light')]
        if r < 0.89 and self.p['zones']:
            return self.zone_operand(sc)
        if self.p['matrix']:
            return self.matrix_operand(sc)
        return ['light', self.name_expr(sc, 'light')]

    def known_name(self, label):
        """a literal or a macro standing for the label"""
        ms = [n for n, (t, v) in self.macros.items()
              if t == 'str:light' and v == label]
        if ms and self.rng.random() < 0.3:
            return ['macro', self.rng.choice(ms)]
        vs = [n for n, v in getattr(self, 'known_strs', {}).items()
              if v == label]
        if vs and self.rng.random() < 0.4:
            self.tag('zone-or-matrix-light-by-variable')
            return ['var', self.rng.choice(vs)]
        return ['str', label]

    def small_int(self, sc, lo, hi):
        """expression whose value is a known integer in [lo, hi]"""
        v = self.rng.randint(lo, hi)
        r = self.rng.random()
        if r < 0.5:
            return ['num', v], v
        if r < 0.7 and v >= 1:
            a = self.rng.randint(0, v)
            return ['bin', '+', ['num', a], ['num', v - a]], v
        if r < 0.78:
            return ['bin', '-', ['num', v + 2], ['num', 2]], v
        ms = [n for n, (t, mv) in self.macros.items()
              if t == 'int' and lo <= mv <= hi]
        ks = [n for n, kv in getattr(self, 'known_ints', {}).items()
              if lo <= kv <= hi]
        if ks and (not ms or self.rng.random() < 0.6):
            k = self.rng.choice(ks)
            self.tag('range-by-variable')
            return ['var', k], self.known_ints[k]
        if ms:
            m = self.rng.choice(ms)
            self.tag('range-by-macro')
            return ['macro', m], self.macros[m][1]
        return ['num', v], v

    def zone_operand(self, sc):
        mz = [d for d in self.pop if d.get('kind') == 'mz']
        r = self.rng.random()
        if mz and r < 0.85:
            d = self.rng.choice(mz)
            a, av = self.small_int(sc, 0, d['zones'] - 1)
            b = None
            if self.rng.random() < 0.6:
                b, _ = self.small_int(sc, av, d['zones'] - 1)
            self.tag('zone' + ('-range' if b else '-single'))
            return ['zone', self.known_name(d['label']), a, b]
        others = [d['label'] for d in self.pop if d.get('kind') != 'mz']
        name = self.rng.choice(others) if others and r < 0.95 else 'ghost'
        self.tag('zone-on-non-multizone')
        return ['zone', ['str', name], ['num', self.rng.randint(0, 3)],
                ['num', 4] if self.rng.random() < 0.5 else None]

    def rc_range(self, sc, extent, allow_vars=()):
        a, av = self.small_int(sc, 0, extent - 1)
        b = None
        if self.rng.random() < 0.55:
            b, _ = self.small_int(sc, av, extent - 1)
        return [a, b]

    def matrix_operand(self, sc):
        mats = [d for d in self.pop if d.get('kind') == 'matrix']
        r = self.rng.random()
        if not mats or r > 0.9:
            others = [d['label'] for d in self.pop if d.get('kind') != 'matrix']
            name = self.rng.choice(others) if others and r < 0.97 else 'ghost'
            self.tag('matrix-on-non-matrix')
            return ['matrix', ['str', name], [['num', 0], None],
                    [['num', 1], ['num', 1]] if self.rng.random() < 0.5 else None,
                    'rc']
        d = self.rng.choice(mats)
        h, w = d['height'], d['width']
        if self.rng.random() < 0.5:
            rows, cols, order = self.rc_spec(sc, h, w)
            self.tag('matrix-inline')
            return ['matrix', self.known_name(d['label']), rows, cols, order]
        sub = Scope(sc.in_routine)
        sub.params, sub.defined = sc.params, dict(sc.defined)
        sub.in_matrix = (h, w)
        sub.loop_vars = set(sc.loop_vars)
        sub.protected = getattr(sc, 'protected', ())
        sub.loop_depth = 0
        sub.returns = sc.returns
        body = self.block(sub, self.rng.randint(1, 6), 2)
        self.tag('matrix-block')
        return ['mblock', self.known_name(d['label']), body]

    def rc_spec(self, sc, h, w):
        k = self.rng.random()
        rows = self.rc_range(sc, h) if k < 0.75 else None
        cols = self.rc_range(sc, w) if k > 0.25 or rows is None else None
        if rows is None and cols is None:
            rows = self.rc_range(sc, h)
        order = 'cr' if self.rng.random() < 0.3 else 'rc'
        return rows, cols, order

    def k_stage(self, sc, depth):
        h, w = sc.in_matrix
        rows, cols, order = self.rc_spec(sc, h, w)
        # loop indices as coordinates
        for lv, ext in getattr(sc, 'index_vars', []):
            if self.rng.random() < 0.6:
                if ext == 'row':
                    rows = [['var', lv], None]
                else:
                    cols = [['var', lv], None]
        self.tag('stage')
        return [['stage', rows, cols, order]]

    def k_action(self, sc, depth):
        verb = self.rng.choice(['set', 'set', 'set', 'on', 'off'])
        n = self.rng.choice([1, 1, 1, 2, 3])
        ops = [self.operand(sc, verb) for _ in range(n)]
        if n > 1:      # `all` stands alone (the manual shows no list with it)
            ops = [op if op[0] != 'all' else
                   ['light', self.name_expr(sc, 'light')] for op in ops]
        if n > 1:
            self.tag('and-list')
        for op in ops:
            self.tag(verb + '-' + op[0])
        return [['action', verb, ops]]

    def fresh_name(self, sc, pool, avoid=()):
        cands = [n for n in pool if n not in avoid]
        return self.rng.choice(cands or pool)

    def s_assign(self, sc, fresh=False):
        # inside a routine: often the target is one of its own parameters
        # (a private copy, wherever in the body the assignment stands)
        mine = [(n, t) for n, t in sorted(getattr(sc, 'params', {}).items())
                if n not in getattr(sc, 'protected', ())
                and t in ('int', 'num')]
        if sc.in_routine and mine and not fresh and \
                self.rng.random() < self.p.get('assign_params', 0.3):
            name, t = self.rng.choice(mine)
            e = self.int_expr(sc, 2) if t == 'int' else self.num_expr(sc, 2)
            self.tag('assign-to-param')
            if sc.loop_depth:
                self.tag('assign-to-param-in-loop')
            return ['assign', name, e]
        r = self.rng.random()
        if r < 0.45:
            t, pool = 'int', INT_NAMES
        elif r < 0.75:
            t, pool = 'num', NUM_NAMES
        elif r < 0.9:
            t, pool = 'str:light', STR_NAMES
        elif r < 0.95:
            t, pool = 'str:group', GRP_NAMES
        else:
            t, pool = 'str:location', LOC_NAMES
        avoid = set(self.routines) | set(self.macros) | \
            set(getattr(sc, 'protected', ()))
        name = self.fresh_name(sc, pool, avoid)
        if name in avoid:
            return self.s_print(sc)
        if t == 'int':
            e = self.int_expr(sc, 2)
        elif t == 'num':
            e = self.num_expr(sc, 2)
        else:
            pool_v = {'str:light': self.lights, 'str:group': self.groups,
                      'str:location': self.locs}[t]
            e = ['str', self.rng.choice(pool_v or UNKNOWN_NAMES)]
        self.define_var(sc, name, t)
        return ['assign', name, e]

    def define_var(self, sc, name, t):
        if sc.in_routine or not self.straight or sc.loop_depth or sc.in_matrix:
            if name in sc.params:
                return
            sc.defined[name] = t
            if sc.in_routine and name in self.gdefined:
                self.tag('assign-global-in-routine')
        else:
            self.gdefined[name] = t

    def k_assign(self, sc, depth):
        return [self.s_assign(sc)]

    def k_define(self, sc, depth):
        if sc.in_routine or sc.loop_depth or not self.straight:
            return self.k_assign(sc, depth)
        name = self.fresh_name(sc, MACRO_NAMES, set(self.macros))
        if name in self.macros or name in self.gdefined:
            return self.k_assign(sc, depth)
        v = self.rng.choice([0, 1, 2, 5])
        self.macros[name] = ('int', v)
        self.tag('macro')
        return [['define', name, ['num', v]]]

    def s_print(self, sc, force_value=False):
        r = self.rng.random()
        kind = 'println' if r < 0.35 else 'print'
        r = self.rng.random()
        if r < 0.08 and not force_value:
            return [kind, None]
        if r < 0.45:
            e = self.int_expr(sc, 2)
        elif r < 0.7:
            e = self.num_expr(sc, 1)
        elif r < 0.8:
            e = ['str', self.rng.choice(['hello', 'a b', '', '--', '{x}',
                                         'it''s #1'])]
        elif r < 0.9:
            names = self.visible(sc, ('str:light', 'str:group', 'str:location'))
            e = ['var', self.rng.choice(names)] if names else ['num', 7]
        else:
            e = self.cond_cmp(sc)
            self.tag('print-truth-value')
        return [kind, e]

    def k_print(self, sc, depth):
        return [self.s_print(sc)]

    def k_printf(self, sc, depth):
        nums = self.visible(sc, ('int', 'num'))
        parts, args = [], []
        for _ in range(self.rng.randint(1, 3)):
            r = self.rng.random()
            if r < 0.4:
                parts.append('{}')
                args.append(self.int_expr(sc, 1))
            elif r < 0.6 and nums:
                parts.append('{' + self.rng.choice(nums) + '}')
            elif r < 0.8 and not self.time_is_pattern:
                parts.append('{' + self.rng.choice(
                    ['hue', 'kelvin', 'duration', 'saturation']) + '}')
            else:
                parts.append(self.rng.choice(['v=', 'x', '#', ' - ']))
        self.tag('printf')
        return [['printf', ['str', ' '.join(parts)], args]]

    def k_if(self, sc, depth):
        c = self.cond(sc)
        then = self.sub_block(sc, depth)
        els = None
        r = self.rng.random()
        if r < 0.3:
            els = self.sub_block(sc, depth)
            self.tag('if-else')
        elif r < 0.42 and depth > 1:
            els = self.k_if(sc, depth - 1)
            self.tag('else-if')
        else:
            self.tag('if')
        return [['if', c, then, els]]

    def sub_block(self, sc, depth, n=None):
        saved_def, saved_straight = dict(sc.defined), self.straight
        saved_g = dict(self.gdefined)
        self.straight = False
        try:
            return self.block(sc, n or self.rng.randint(1, 4), depth - 1)
        finally:
            sc.defined = saved_def
            self.straight = saved_straight
            self.gdefined = saved_g

    def loop_body(self, sc, depth, lvars, index_var=None):
        sc.loop_depth += 1
        added = [v for v, _ in lvars if v not in sc.loop_vars]
        sc.loop_vars |= set(added)
        saved_def = dict(sc.defined)
        saved_idx = list(getattr(sc, 'index_vars', []))
        for v, t in lvars:
            sc.defined[v] = t
        if index_var and sc.in_matrix:
            sc.index_vars = saved_idx + [index_var]
        try:
            body = self.sub_block(sc, depth)
            if self.rng.random() < self.p['trace_loops'] and not self.p['markers']:
                for v, _ in reversed(lvars):
                    body.insert(0, ['print', ['var', v]])
                self.tag('loop-vars-printed')
        finally:
            sc.loop_depth -= 1
            sc.loop_vars -= set(added)
            sc.defined = saved_def
            sc.index_vars = saved_idx
        return body

    def loop_var(self, sc, kind):
        pool = LOOP_VARS[(kind, bool(sc.in_routine))]
        cands = [n for n in pool if n not in sc.loop_vars]
        return self.rng.choice(cands) if cands else None

    def count_expr(self, sc):
        if self.rng.random() < self.p['choose_counts']:
            return self.new_choose()
        r = self.rng.random()
        if r < 0.7:
            return ['num', self.rng.choice([0, 1, 2, 2, 3, 3, 4, 7])]
        if r < 0.8:
            names = self.visible(sc, ('int',))
            if names:
                # unknown magnitude: clamp with modulo
                return ['bin', '%', ['var', self.rng.choice(names)], ['num', 4]]
        return ['bin', '+', ['num', 1], ['num', self.rng.choice([0, 1, 2])]]

    def k_repeat(self, sc, depth):
        kinds = [('count', 5), ('range', 4), ('interp', 3), ('cycle', 2),
                 ('while', 3), ('inf', 1.5)]
        if self.p['lightloops'] and not sc.in_matrix:
            kinds += [('all', 2), ('groups', 1), ('locations', 1), ('in', 3)]
        if sc.in_matrix:
            kinds = [('count', 2), ('range', 6)]
        kind = self.pick(kinds)
        self.tag('repeat-' + kind + ('-nested' if sc.loop_depth else '')
                 + ('-in-routine' if sc.in_routine else ''))
        if kind == 'count':
            info = {'n': self.count_expr(sc)}
            return [['repeat', kind, info, self.loop_body(sc, depth, [])]]
        if kind == 'while':
            if self.rng.random() < 0.5:
                c = self.new_choose()
                return [['repeat', 'while', {'cond': c},
                         self.loop_body(sc, depth, [])]]
            v = self.loop_var(sc, 'cnt')
            if v is None:
                return self.k_print(sc, depth)
            n0 = self.rng.choice([0, 1, 2, 3])
            body = self.loop_body(sc, depth, [(v, 'int')])
            body.insert(0, ['assign', v, ['bin', '-', ['var', v], ['num', 1]]])
            pre = ['assign', v, ['num', n0]]
            return [pre, ['repeat', 'while',
                          {'cond': ['bin', '>', ['var', v], ['num', 0]]}, body]]
        if kind == 'inf':
            v = self.loop_var(sc, 'cnt')
            if v is None:
                return self.k_print(sc, depth)
            n0 = self.rng.choice([1, 2, 3])
            body = self.loop_body(sc, depth, [(v, 'int')])
            guard = [['if', ['bin', '<=', ['var', v], ['num', 0]],
                      [['break']], None],
                     ['assign', v, ['bin', '-', ['var', v], ['num', 1]]]]
            return [['assign', v, ['num', n0]],
                    ['repeat', 'inf', {}, guard + body]]
        if kind == 'range':
            v = self.loop_var(sc, 'int')
            if v is None:
                return self.k_print(sc, depth)
            if sc.in_matrix:
                h, w = sc.in_matrix
                which = self.rng.choice(['row', 'col'])
                ext = h if which == 'row' else w
                a = self.rng.randint(0, ext - 1)
                b = self.rng.randint(0, ext - 1)
                info = {'var': v, 'a': ['num', a], 'b': ['num', b]}
                return [['repeat', 'range', info, self.loop_body(
                    sc, depth, [(v, 'int')], index_var=(v, which))]]
            a = self.rng.randint(-2, 5)
            b = a + self.rng.choice([-3, -1, 0, 1, 2, 4])
            ea = ['num', a] if self.rng.random() < 0.7 else \
                ['bin', '+', ['num', a - 1], ['num', 1]]
            info = {'var': v, 'a': ea, 'b': ['num', b]}
            return [['repeat', 'range', info,
                     self.loop_body(sc, depth, [(v, 'int')])]]
        if kind == 'interp':
            v = self.loop_var(sc, 'num')
            if v is None:
                return self.k_print(sc, depth)
            info = {'n': self.count_expr(sc), 'var': v,
                    'a': self.bound(sc), 'b': self.bound(sc)}
            return [['repeat', 'interp', info,
                     self.loop_body(sc, depth, [(v, 'num')])]]
        if kind == 'cycle':
            v = self.loop_var(sc, 'num')
            if v is None:
                return self.k_print(sc, depth)
            start = None if self.rng.random() < 0.5 else self.bound(sc)
            info = {'n': self.count_expr(sc), 'var': v, 'start': start}
            if (info['n'] == ['num', 0] and not self.p['zero_cycle']) \
                    or info['n'][0] != 'num':
                info['n'] = ['num', self.rng.choice([1, 2, 3, 4])]
            return [['repeat', 'cycle', info,
                     self.loop_body(sc, depth, [(v, 'num')])]]
        # light iterations
        lv = self.loop_var(sc, 'str')
        if lv is None:
            return self.k_print(sc, depth)
        lvt = {'all': 'str:light', 'in': 'str:light', 'groups': 'str:group',
               'locations': 'str:location'}[kind]
        info = {'lvar': lv, 'with': None}
        lvars = [(lv, lvt)]
        if kind == 'in':
            srcs = []
            for _ in range(self.rng.choice([1, 2, 2, 3])):
                r = self.rng.random()
                if r < 0.5:
                    srcs.append(['light', self.name_expr(sc, 'light')])
                elif r < 0.8:
                    srcs.append(['group', self.name_expr(sc, 'group')])
                else:
                    srcs.append(['location', self.name_expr(sc, 'location')])
            info['srcs'] = srcs
        if self.rng.random() < 0.4:
            iv = self.loop_var(sc, 'num')
            if iv is not None:
                if self.rng.random() < 0.6:
                    info['with'] = ['from', iv, self.bound(sc), self.bound(sc)]
                    lvars.append((iv, 'num'))
                elif self.nonempty(kind, info) or self.p['zero_cycle']:
                    st = None if self.rng.random() < 0.5 else self.bound(sc)
                    info['with'] = ['cycle', iv, st]
                    lvars.append((iv, 'num'))
        return [['repeat', kind, info, self.loop_body(sc, depth, lvars)]]

    def nonempty(self, kind, info):
        """is the iteration certainly non-empty (cycle over zero lights divides
        by zero in the statement's own formula: left out)"""
        if kind == 'all':
            return bool(self.lights)
        if kind == 'groups':
            return bool(self.groups)
        if kind == 'locations':
            return bool(self.locs)
        return any(s[0] == 'light' for s in info['srcs'])

    def bound(self, sc):
        r = self.rng.random()
        if r < 0.6:
            return ['num', self.rng.choice([0, 10, 30, 100, 120, 180, 360, 45])]
        if r < 0.8:
            return ['num', round(self.rng.uniform(0, 100), 1)]
        return self.int_expr(sc, 1)

    def k_break(self, sc, depth):
        self.tag('break-depth{}'.format(min(sc.loop_depth, 3)))
        if self.rng.random() < 0.6:
            return [['if', self.cond(sc), [['break']], None]]
        return [['break']]

    def k_return(self, sc, depth):
        self.tag('return-in-loop' if sc.loop_depth else 'return')
        val = None
        if sc.returns == 'int':
            val = self.int_expr(sc, 1)
        elif sc.returns == 'num':
            val = self.num_expr(sc, 1)
        st = ['return', val]
        if self.rng.random() < 0.6:
            return [['if', self.cond(sc), [st], None]]
        return [st]

    def k_call(self, sc, depth):
        cands = list(self.routines)
        if sc.in_matrix:
            return self.k_print(sc, depth)
        current = getattr(sc, 'routine_name', None)
        f = self.rng.choice(cands)
        info = self.routines[f]
        if f == current:
            return self.k_print(sc, depth)
        args = [self.arg(sc, t) for _, t in info['params']]
        self.tag('call-stmt')
        out = [['call', f, args, None]]
        if self.rng.random() < self.p['trace_vars'] and not self.p['markers']:
            out += self.trace(sc)
        return out

    def trace(self, sc, k=3):
        names = self.visible(sc, ('int', 'num', 'str:light', 'str:group',
                                  'str:location'))
        self.rng.shuffle(names)
        self.tag('vars-printed')
        return [['print', ['var', n]] for n in sorted(names[:k])]

    def k_routine(self, sc, depth):
        cands = [n for n in ROUTINE_NAMES if n not in self.routines
                 and n not in self.gdefined and n not in self.macros]
        nested = not self.straight
        if not cands or (nested and
                         self.rng.random() >= self.p['nested_defs']):
            return self.k_print(sc, depth)
        if nested:
            self.tag('routine-defined-in-' + (
                'loop' if sc.loop_depth else 'if'))
        name = self.rng.choice(cands)
        nparams = self.rng.choice([0, 1, 1, 2, 2, 3, 4])
        params = []
        used = set()
        for _ in range(nparams):
            t = self.rng.choice(['int', 'int', 'num', 'str:light'])
            pool = {'int': INT_NAMES, 'num': NUM_NAMES,
                    'str:light': STR_NAMES}[t]
            # deliberately collide with globals and other routines' parameters
            globs = [g for g in self.gdefined if g in pool and g not in used]
            if globs and self.rng.random() < 0.5:
                pn = self.rng.choice(globs)
                self.tag('param-hides-global')
            else:
                cc = [n for n in pool if n not in used]
                if not cc:
                    continue
                pn = self.rng.choice(cc)
            if pn in self.macros or pn in self.routines:
                continue
            used.add(pn)
            params.append((pn, t))
        ret = self.rng.choice([None, None, 'int', 'int', 'num'])
        rsc = Scope(True)
        rsc.params = {n: t for n, t in params}
        rsc.returns = ret
        rsc.routine_name = name
        recursive = (self.rng.random() < 0.25 and params
                     and any(t == 'int' for _, t in params))
        if recursive:      # the depth parameter is never assigned in the body
            rsc.protected = {[n for n, t in params if t == 'int'][0]}
        saved_straight = self.straight
        saved_g = dict(self.gdefined)
        saved_mode = self.mode
        saved_pat = self.time_is_pattern
        self.straight = False
        # visible while generating the body so that it can call itself
        self.routines[name] = {'params': params, 'ret': ret, 'cost': 30,
                               'pure': False}
        try:
            body = self.block(rsc, self.rng.randint(1, 6), 3)
            if params and self.rng.random() < self.p['trace_vars'] * 3 \
                    and not self.p['markers']:
                body = [['print', ['var', n]] for n, _ in params] + body
                self.tag('params-printed')
            if recursive:
                dn = [n for n, t in params if t == 'int'][0]
                # only parameters and literals: the guard may be placed before
                # the statements that define the routine's locals
                args = [(['bin', '-', ['var', dn], ['num', 1]] if n == dn
                         else ['var', n] if self.rng.random() < 0.6
                         else ['num', 3] if t != 'str:light'
                         else ['str', self.rng.choice(self.lights or ['ghost'])])
                        for n, t in params]
                if ret:
                    callst = ['assign', 'rv_' + name, ['call', name, args]]
                else:
                    callst = ['call', name, args, None]
                guard = ['if', ['bin', '>', ['var', dn], ['num', 0]],
                         [callst], None]
                pos = self.rng.randint(0, len(body))
                if any(s[0] in ('return', 'break') for s in body[:pos]):
                    pos = 0
                body.insert(pos, guard)
                self.tag('recursion')
            if ret:
                if body and body[-1][0] in ('return', 'break'):
                    body.pop()
                body.append(['return', self.int_expr(rsc, 2) if ret == 'int'
                             else self.num_expr(rsc, 2)])
        finally:
            self.straight = saved_straight
            self.gdefined = saved_g
            self.mode = saved_mode
            self.time_is_pattern = saved_pat
        cost = self.cost(body)
        if recursive:
            cost *= 6
        self.routines[name] = {'params': params, 'ret': ret, 'cost': cost,
                               'pure': False, 'recursive': recursive}
        if recursive:
            # calls of a recursive routine pass a small depth
            self.routines[name]['depth_param'] = dn
        self.tag('routine-{}params'.format(min(len(params), 3)))
        compound = len(body) != 1 or self.rng.random() < 0.5
        return [['routine', name, [n for n, _ in params], body, compound]]


def generate(rng, pop, prof=None, tries=20):
    """returns (program, tags, decisions)"""
    last = None
    for _ in range(tries):
        g = Gen(rng, pop, prof)
        try:
            prog = g.program()
        except TooBig as ex:
            last = ex
            continue
        call_uncalled(prog, g)
        clamp_recursion(prog, g)
        decisions = [1 if rng.random() < 0.55 else 0
                     for _ in range(rng.choice([0, 8, 32, 64]))]
        return prog, g.tags, decisions
    raise last


def call_uncalled(prog, g):
    """every routine is called at least once from the top level"""
    called = set()

    def walk(node):
        if isinstance(node, list):
            if node and node[0] == 'call' and isinstance(node[1], str):
                called.add(node[1])
            if node and node[0] == 'routine':
                walk(node[3])       # calls inside bodies count only if reached
                return
            for x in node:
                walk(x)
        elif isinstance(node, dict):
            for x in node.values():
                walk(x)
    # calls made from the top level (outside routine bodies)
    for st in prog:
        if st[0] != 'routine':
            walk(st)
    sc = Scope()
    for name, f in g.routines.items():
        if name in called:
            continue
        args = []
        for _, t in f['params']:
            if t == 'int':
                args.append(['num', g.rng.choice([0, 1, 2, 3])])
            elif t == 'num':
                args.append(['num', g.rng.choice([1.5, 20, 50])])
            else:
                args.append(['str', g.rng.choice(g.lights or ['ghost'])])
        if g.p['markers']:
            prog.append(g.marker())
        prog.append(['call', name, args, None])


def clamp_recursion(prog, g):
    """arguments bound to the depth parameter of a recursive routine are
    replaced by small literals at every non-recursive call site"""
    rec = {n: [p for p, _ in f['params']].index(f['depth_param'])
           for n, f in g.routines.items() if f.get('recursive')}
    if not rec:
        return

    def walk(node, inside=None):
        if isinstance(node, list):
            if node and node[0] == 'routine':
                walk(node[3], node[1])
                return
            if node and node[0] == 'call' and isinstance(node[1], str) \
                    and node[1] in rec and node[1] != inside:
                node[2][rec[node[1]]] = ['num', g.rng.choice([0, 1, 2, 3])]
            for x in node:
                walk(x, inside)
        elif isinstance(node, dict):
            for x in node.values():
                walk(x, inside)
    walk(prog)
