"""E3 (second half): AST -> token list -> text.

`tokens(prog, rng=None, opts=...)` yields the token sequence; `layout` turns a
token sequence into text, canonically (single blanks) or with layout fuzzing
(C16): arbitrary blanks/tabs/line breaks/comments, H/S/B/K, and no white space
at all around operators, braces and brackets.

Parenthesisation is computed from the *documented* precedence table, so a
parser that groups differently computes a different value (C02).
"""
from bvf.oracle import num_text

PREC = {'or': 1, 'and': 2,
        '==': 3, '!=': 3, '<': 3, '<=': 3, '>': 3, '>=': 3,
        '+': 4, '-': 4, '*': 5, '/': 5, '%': 5, '^': 6}
RIGHT = {'^'}
PUNCT = set('{}[]()') | set(PREC) - {'and', 'or'}
ABBREV = {'hue': 'H', 'saturation': 'S', 'brightness': 'B', 'kelvin': 'K'}


def is_neg(v):
    """negative, including the float -0.0 (written with a minus sign)"""
    return v < 0 or (v == 0 and str(v).startswith('-'))


class Tok(str):
    """token text + flags"""
    __slots__ = ('reg', 'pat')

    def __new__(cls, text, reg=False, pat=False):
        o = str.__new__(cls, text)
        o.reg, o.pat = reg, pat
        return o


def qstr(s):
    return '"' + s.replace('"', '\\"') + '"'


class Renderer:
    def __init__(self, rng=None, redundant=0.0, brace_single=0.0,
                 bracket_calls=0.5, bare_bodies=0.5):
        self.rng = rng
        self.redundant = redundant
        self.brace_single = brace_single
        self.bracket_calls = bracket_calls
        self.bare_bodies = bare_bodies

    def chance(self, p):
        return self.rng is not None and p > 0 and self.rng.random() < p

    # ----------------------------------------------------------- expressions
    def atom_like(self, e):
        return e[0] in ('num', 'var', 'macro', 'reg', 'call', 'choose',
                        'paren') and not (e[0] == 'num' and is_neg(e[1]))

    def expr(self, e, out, parent=None, side=None):
        """inside braces"""
        t = e[0]
        wrap = False
        if t == 'bin':
            p = PREC[e[1]]
            if parent is not None:
                pp = PREC[parent]
                if p < pp:
                    wrap = True
                elif p == pp:
                    wrap = (side == 'L') == (parent in RIGHT)
            if not wrap and parent is not None and self.chance(self.redundant):
                wrap = True
        elif t in ('neg', 'pos') or (t == 'num' and is_neg(e[1])):
            # a signed operand is parenthesised wherever its grouping could be
            # read differently (left of ^, right of any operator)
            if parent == '^' or (parent is not None and side == 'R'):
                wrap = True
        elif parent is not None and self.chance(self.redundant / 2):
            wrap = True
        if wrap:
            out.append(Tok('('))
        if t == 'bin':
            self.expr(e[2], out, e[1], 'L')
            out.append(Tok(e[1]))
            self.expr(e[3], out, e[1], 'R')
        elif t == 'neg' or t == 'pos':
            out.append(Tok('-' if t == 'neg' else '+'))
            inner = e[1]
            signed = inner[0] in ('neg', 'pos') or (
                inner[0] == 'num' and is_neg(inner[1]))
            if self.atom_like(inner):
                self.expr(inner, out)
            elif signed and self.chance(0.6):
                # a run of signs needs no parentheses: - - x, - + x, - -3
                self.expr(inner, out)
            else:
                out.append(Tok('('))
                self.expr(inner, out)
                out.append(Tok(')'))
        elif t == 'paren':
            out.append(Tok('('))
            self.expr(e[1], out)
            out.append(Tok(')'))
        elif t == 'num':
            if is_neg(e[1]):
                out.append(Tok('-'))
                out.append(Tok(num_text(-e[1])))
            else:
                out.append(Tok(num_text(e[1])))
        elif t == 'str':
            out.append(Tok(qstr(e[1])))
        elif t in ('var', 'macro'):
            out.append(Tok(e[1]))
        elif t == 'reg':
            out.append(Tok(e[1], reg=True))
        elif t == 'call':
            self.call(e[1], e[2], out, True)
        elif t == 'choose':
            out.extend([Tok('['), Tok('choose'), Tok(str(e[1])), Tok(']')])
        else:
            raise AssertionError(e)
        if wrap:
            out.append(Tok(')'))

    def rvalue(self, e, out, direct=False):
        """a value position outside braces.  direct: the grammar requires a
        value here (a bare negative literal is accepted); elsewhere the value
        is optional and a leading minus would not be recognised as one."""
        t = e[0]
        if t in ('bin', 'neg', 'pos', 'paren') or (
                t == 'num' and is_neg(e[1]) and not direct):
            out.append(Tok('{'))
            self.expr(e, out)
            out.append(Tok('}'))
        elif t == 'str':
            out.append(Tok(qstr(e[1])))
        elif t == 'pat':
            out.append(Tok(e[1], pat=True))
        elif t in ('var', 'macro'):
            # may hold a name (string): braces are for numeric values
            self.expr(e, out)
        elif not (t == 'num' and is_neg(e[1])) and self.chance(self.brace_single):
            out.append(Tok('{'))
            self.expr(e, out)
            out.append(Tok('}'))
        else:
            self.expr(e, out)

    def name(self, e, out):
        """a light/group/location name or a macro value: never in braces"""
        if e[0] == 'str':
            out.append(Tok(qstr(e[1])))
        elif e[0] == 'pat':
            out.append(Tok(e[1], pat=True))
        elif e[0] == 'num':
            self.expr(e, out)
        else:
            out.append(Tok(e[1]))

    def call(self, name, args, out, bracketed):
        if bracketed:
            out.append(Tok('['))
        out.append(Tok(name))
        for a in args:
            self.rvalue(a, out, True)
        if bracketed:
            out.append(Tok(']'))

    # ------------------------------------------------------------ statements
    def body(self, stmts, out, force=False, hazard_reg=False):
        """a command sequence: bare single command or begin ... end"""
        bare = (not force and len(stmts) == 1
                and stmts[0][0] not in ('if', 'repeat', 'routine')
                and not self.starts_rvalue(stmts[0], hazard_reg)
                and self.open_ended(stmts[0]) is None
                and (self.rng is None or self.rng.random() < self.bare_bodies))
        if bare:
            self.stmt(stmts[0], out, None)
        else:
            out.append(Tok('begin'))
            self.block(stmts, out)
            out.append(Tok('end'))

    def starts_rvalue(self, s, include_reg):
        if s[0] == 'setreg' or s[0] == 'time_at':
            return include_reg
        if s[0] == 'call':
            return True          # may be rendered bracketed
        return False

    def block(self, stmts, out):
        for i, s in enumerate(stmts):
            nxt = stmts[i + 1] if i + 1 < len(stmts) else None
            self.stmt(s, out, nxt, prev=stmts[i - 1] if i else None)

    def open_ended(self, s):
        """does the statement end in an optional value? returns None,
        'noreg' (registers are not taken as the value) or 'reg'"""
        if s is None:
            return None
        t = s[0]
        if t in ('print', 'println', 'return') and s[1] is None:
            return 'reg'
        if t == 'action':
            last = s[2][-1]
            if last[0] == 'zone' and last[3] is None:
                return 'noreg'
            if last[0] == 'matrix':
                rows, cols, order = last[2], last[3], last[4]
                final = rows if (order == 'cr' or cols is None) and rows else cols
                if final is not None and final[1] is None:
                    return 'noreg'
        if t == 'stage':
            rows, cols, order = s[1], s[2], s[3]
            final = rows if (order == 'cr' or cols is None) and rows else cols
            if final is not None and final[1] is None:
                return 'noreg'
        return None

    def rc(self, rows, cols, order, out):
        def one(word, rc_):
            if rc_ is None:
                return
            out.append(Tok(word))
            self.rvalue(rc_[0], out)
            if rc_[1] is not None:
                self.rvalue(rc_[1], out)
        if order == 'cr':
            one('column', cols)
            one('row', rows)
        else:
            one('row', rows)
            one('column', cols)

    def stmt(self, s, out, nxt=None, prev=None):
        t = s[0]
        if t == 'setreg':
            out.append(Tok(s[1], reg=True))
            self.rvalue(s[2], out, True)
        elif t == 'time_at':
            out.extend([Tok('time', reg=True), Tok('at')])
            for i, p in enumerate(s[1]):
                if i:
                    out.append(Tok('or'))
                out.append(Tok(p[1], pat=(p[0] == 'lit')))
        elif t == 'units':
            out.extend([Tok('units'), Tok(s[1])])
        elif t == 'action':
            out.append(Tok(s[1]))
            for i, op in enumerate(s[2]):
                if i:
                    out.append(Tok('and'))
                k = op[0]
                if k in ('all', 'default'):
                    out.append(Tok(k))
                elif k == 'light':
                    self.name(op[1], out)
                elif k in ('group', 'location'):
                    out.append(Tok(k))
                    self.name(op[1], out)
                elif k == 'zone':
                    self.name(op[1], out)
                    out.append(Tok('zone'))
                    self.rvalue(op[2], out)
                    if op[3] is not None:
                        self.rvalue(op[3], out)
                elif k == 'matrix':
                    self.name(op[1], out)
                    self.rc(op[2], op[3], op[4], out)
                elif k == 'mblock':
                    self.name(op[1], out)
                    out.append(Tok('begin'))
                    self.block(op[2], out)
                    out.append(Tok('end'))
        elif t == 'stage':
            out.append(Tok('stage'))
            self.rc(s[1], s[2], s[3], out)
        elif t == 'get':
            out.append(Tok('get'))
            self.name(s[1], out)
        elif t == 'wait':
            out.append(Tok('wait'))
        elif t == 'assign':
            out.extend([Tok('assign'), Tok(s[1])])
            self.rvalue(s[2], out, True)
        elif t == 'define':
            out.extend([Tok('define'), Tok(s[1])])
            self.name(s[2], out)
        elif t == 'routine':
            out.extend([Tok('define'), Tok(s[1])])
            if s[2]:
                out.append(Tok('with'))
                out.extend(Tok(p) for p in s[2])
            # `define f return 1` is not recognised as a routine (the word
            # after the name must be a command keyword the compiler lists)
            self.body(s[3], out, force=s[4] or len(s[3]) != 1
                      or s[3][0][0] in ('return', 'break'))
        elif t == 'call':
            bracketed = s[3]
            if bracketed is None:
                bracketed = self.chance(self.bracket_calls)
            if self.open_ended(prev):
                bracketed = False
            self.call(s[1], s[2], out, bracketed)
        elif t == 'return':
            out.append(Tok('return'))
            if s[1] is not None:
                self.rvalue(s[1], out)
        elif t == 'if':
            out.append(Tok('if'))
            self.rvalue(s[1], out, True)
            els = s[3]
            self.body(s[2], out)
            if els is not None:
                out.append(Tok('else'))
                if len(els) == 1 and els[0][0] == 'if' and (
                        self.rng is None or self.rng.random() < 0.8):
                    self.stmt(els[0], out, None)
                else:
                    self.body(els, out)
        elif t == 'repeat':
            self.repeat(s, out)
        elif t == 'break':
            out.append(Tok('break'))
        elif t in ('print', 'println'):
            out.append(Tok(t))
            if s[1] is not None:
                self.rvalue(s[1], out)
        elif t == 'printf':
            out.append(Tok('printf'))
            self.name(s[1], out)
            for a in s[2]:
                self.rvalue(a, out)
        else:
            raise AssertionError(s)

    def with_clause(self, w, out):
        out.extend([Tok('with'), Tok(w[1])])
        if w[0] == 'from':
            out.append(Tok('from'))
            self.rvalue(w[2], out, True)
            out.append(Tok('to'))
            self.rvalue(w[3], out, True)
            return False
        out.append(Tok('cycle'))
        if w[2] is not None:
            self.rvalue(w[2], out)
            return False
        return True      # open ended: body must not start like a value

    def repeat(self, s, out):
        kind, info, body = s[1], s[2], s[3]
        out.append(Tok('repeat'))
        hazard = False
        if kind == 'inf':
            hazard = True
        elif kind == 'count':
            self.rvalue(info['n'], out)
        elif kind == 'while':
            out.append(Tok('while'))
            self.rvalue(info['cond'], out, True)
        elif kind == 'range':
            self.with_clause(('from', info['var'], info['a'], info['b']), out)
        elif kind == 'interp':
            self.rvalue(info['n'], out)
            self.with_clause(('from', info['var'], info['a'], info['b']), out)
        elif kind == 'cycle':
            self.rvalue(info['n'], out)
            hazard = self.with_clause(('cycle', info['var'], info['start']), out)
        else:
            if kind == 'all':
                out.append(Tok('all'))
            elif kind == 'groups':
                out.append(Tok('group'))
            elif kind == 'locations':
                out.append(Tok('location'))
            else:
                out.append(Tok('in'))
                for i, src in enumerate(info['srcs']):
                    if i:
                        out.append(Tok('and'))
                    if src[0] != 'light':
                        out.append(Tok(src[0]))
                    self.name(src[1], out)
            out.extend([Tok('as'), Tok(info['lvar'])])
            if info.get('with') is not None:
                hazard = self.with_clause(info['with'], out)
        self.body(body, out, hazard_reg=hazard)


def tokens(prog, rng=None, **opts):
    out = []
    Renderer(rng, **opts).block(prog, out)
    return out


def needs_space(a, b):
    """must two adjacent tokens be separated by white space?"""
    if a.pat:
        return True            # the lexer's look-ahead needs blank or line end
    pa = a in PUNCT
    pb = b in PUNCT
    if pa or pb:
        # two operator characters that would fuse into another token
        if (a + b)[:2] in ('==', '<=', '>=', '!=') and pa and pb:
            return True
        if a in ('<', '>', '=', '!') and b.startswith('='):
            return True
        return False
    return True


def canonical(toks):
    return ' '.join(toks)


SEPS = [' ', ' ', ' ', '  ', '\t', '\n', '\n\n', ' \n ', '\t \t']


def layout(toks, rng, nospace=0.5, abbreviate=0.5, comments=0.1):
    out = []
    for i, t in enumerate(toks):
        text = str(t)
        if t.reg and text in ABBREV and rng.random() < abbreviate:
            text = ABBREV[text]
        out.append(text)
        if i + 1 == len(toks):
            break
        nxt = toks[i + 1]
        if not needs_space(t, nxt) and rng.random() < nospace:
            continue
        if rng.random() < comments:
            out.append(rng.choice([' # a comment\n', '\t#x "y" { [\n',
                                   ' #\n', ' # end begin repeat\n',
                                   # (form feed etc. do not end a comment)
                                   ' # page\x0cbreak hue 7 "\n',
                                   ' # a\x0bb\x1cc\x1dd\x1ee print 1\n']))
        else:
            out.append(rng.choice(SEPS))
    if rng.random() < 0.3:
        out.append(rng.choice(['\n', ' ', ' # trailing', '\n\n']))
    return ''.join(out)
