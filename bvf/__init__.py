"""Bardolph verification framework: runtime monitors, simulated LIFX LAN,
reference interpreter, controlled scheduler.  See /verif/DESIGN.md."""
