"""E6: controlled schedules and virtual time.

Real OS threads, but only the holder of a baton runs.  The names `threading`,
`time` and `datetime` *inside* job_control.py and clock.py are replaced by
shims whose Thread, RLock, Event, sleep, time() and datetime.now() talk to the
scheduler; sys.monitoring LINE events on the code objects of the instrumented
modules are the yield points (every statement of the controller is a possible
thread switch).  At a yield point the scheduler picks the next thread among
the ready ones or -- if some thread sleeps on virtual time -- "advance the
clock to the next wake-up", using a seeded policy (uniform random walk, or
PCT: random priorities with d-1 priority change points).  Blocking is
virtual: a thread blocked on a shim lock, event, sleep or join is simply not
schedulable.  All threads blocked and nobody sleeping = deadlock, reported
with who waits on what (this is how a lost wake-up shows, no time-out
involved).  The sequence of scheduling choices is the replay.
"""
import datetime as _dt
import random
import sys
import threading as _th
import types

TOOL = 3
_INSTRUMENTED = set()
S = None                      # the scheduler of the scenario in progress


class Deadlock(Exception):
    pass


class Livelock(Exception):
    pass


class SchedAbort(BaseException):
    """raised inside managed threads at the end of a scenario"""


class T:
    __slots__ = ('name', 'sem', 'state', 'pred', 'wake_at', 'done', 'prio',
                 'steps', 'what', 'ident', 'exc', 'timeout_at', 'loc',
                 'blocked_time', 'timeout_ok')

    def __init__(self, name, prio):
        self.name = name
        self.sem = _th.Semaphore(0)
        self.state = 'ready'      # ready | blocked | sleep
        self.pred = None
        self.wake_at = None
        self.timeout_at = None
        self.timeout_ok = None
        self.done = False
        self.prio = prio
        self.steps = 0
        self.what = ''
        self.loc = 'not-started'
        self.blocked_time = 0.0   # virtual seconds spent unable to run
        self.exc = None


class Sched:
    def __init__(self, seed, policy='random', depth=2, horizon=400,
                 max_steps=60000, start=1000.0):
        self.rng = random.Random(seed)
        self.policy = policy
        self.threads = {}
        self.order = []
        self.vnow = start
        self.steps = 0
        self.max_steps = max_steps
        self.trace = []           # (step, thread name) at every switch
        self.choices = []         # index chosen among the candidates
        self.aborting = False
        self.deadlock = None
        self.main = None
        self.change_points = set()
        if policy == 'pct':
            self.change_points = {self.rng.randrange(1, horizon)
                                  for _ in range(max(depth - 1, 0))}
        self.tick_prio = self.rng.random()
        # bounded starvation: a schedulable thread passed over this many
        # times in a row is run next (the clock thread never ends by itself,
        # plain PCT would let it starve the script for ever)
        self.fairness = self.rng.choice([8, 20, 50, 120])
        self.passed = {}
        self.evaluating = 0       # >0 while a blocked thread's predicate runs
        self.quantum = self.rng.choice([3, 10, 30])
        self.forced = None        # [thread, remaining picks]
        self.locations = {}       # yield location -> count (coverage)
        self.replay = None        # list of choices to replay

    # ------------------------------------------------------------ threads
    def me(self):
        return self.threads.get(_th.get_ident())

    def register_current(self, name):
        t = T(name, self.rng.random())
        self.threads[_th.get_ident()] = t
        self.order.append(t)
        if self.main is None:
            self.main = t
        return t

    def live(self):
        return [t for t in self.order if not t.done]

    # ---------------------------------------------------------- scheduling
    def _candidates(self):
        out = []
        for t in self.order:
            if t.done:
                continue
            if t.state == 'ready':
                out.append(t)
            elif t.state == 'blocked':
                # a predicate may call instrumented code (Agent.is_running,
                # JobControl.has_jobs): no yield points while it is evaluated
                self.evaluating += 1
                try:
                    holds = t.pred()
                finally:
                    self.evaluating -= 1
                if holds:
                    out.append(t)
                elif t.timeout_at is not None and t.timeout_at <= self.vnow \
                        and self._timeout_counts(t):
                    out.append(t)
        return out

    def _timeout_counts(self, t):
        ok = getattr(t, 'timeout_ok', None)
        if ok is None:
            return True
        self.evaluating += 1
        try:
            return bool(ok())
        finally:
            self.evaluating -= 1

    def _pick(self, options):
        starved = [o for o in options if o != 'TICK'
                   and self.passed.get(o, 0) >= self.fairness]
        if self.replay is not None and len(self.choices) < len(self.replay):
            i = self.replay[len(self.choices)] % len(options)
        elif self.forced and self.forced[0] in options and self.forced[1] > 0:
            self.forced[1] -= 1
            i = options.index(self.forced[0])
        elif starved:
            i = options.index(starved[0])
            self.forced = [starved[0], self.quantum]
        elif self.policy == 'pct':
            def prio(o):
                return self.tick_prio if o == 'TICK' else o.prio
            best = max(options, key=prio)
            i = options.index(best)
        else:
            i = self.rng.randrange(len(options))
        self.choices.append(i)
        for o in options:
            if o != 'TICK':
                self.passed[o] = 0 if o is options[i] else \
                    self.passed.get(o, 0) + 1
        return options[i]

    def switch(self, loc=''):
        """called by the baton holder at a yield point"""
        me = self.me()
        if me is None or self.evaluating:
            return
        if self.aborting:
            raise SchedAbort()
        self.steps += 1
        me.steps += 1
        if loc:
            self.locations[loc] = self.locations.get(loc, 0) + 1
            me.what = me.what if me.state != 'ready' else ''
            me.loc = loc
        if self.steps in self.change_points and not me.done:
            me.prio = self.rng.random() * 0.01      # PCT: lower the runner
        if self.steps > self.max_steps:
            self._fail('LIVELOCK: step budget exhausted; ' + self.describe())
        while True:
            cands = self._candidates()
            timers = [t for t in self.order if not t.done and (
                t.state == 'sleep' or (t.state == 'blocked'
                                       and t.timeout_at is not None
                                       and t.timeout_at > self.vnow
                                       and self._timeout_counts(t)))]
            options = list(cands)
            if timers:
                options.append('TICK')
            if not options:
                self._fail('DEADLOCK: ' + self.describe())
            c = self._pick(options)
            if c == 'TICK':
                nxt = min((t.wake_at if t.state == 'sleep' else t.timeout_at)
                          for t in timers)
                dt = max(self.vnow, nxt) - self.vnow
                if dt > 0:
                    for t in self.order:
                        # (waiting for a lock is waiting for its owner to be
                        # scheduled, which time does not decide)
                        if not t.done and (t.state == 'sleep' or (
                                t.state == 'blocked' and t not in cands
                                and t.what != 'lock')):
                            t.blocked_time += dt
                self.vnow = max(self.vnow, nxt)
                for t in timers:
                    if t.state == 'sleep' and t.wake_at <= self.vnow:
                        t.state = 'ready'
                continue
            break
        if c.state == 'blocked':
            c.state = 'ready'
        if c is me:
            return
        self.trace.append(c.name)
        c.sem.release()
        if not me.done:
            me.sem.acquire()
            if self.aborting:
                raise SchedAbort()
            if self.deadlock and me is self.main:
                raise (Livelock if self.deadlock.startswith('LIVE')
                       else Deadlock)(self.deadlock)

    def _fail(self, description):
        me = self.me()
        self.deadlock = description
        if me is self.main:
            raise (Livelock if description.startswith('LIVE')
                   else Deadlock)(description)
        # hand the baton to the driver, park this thread until tear-down
        self.main.state = 'ready'
        self.main.sem.release()
        if me.done:
            return            # a thread on its way out just leaves
        me.sem.acquire()
        raise SchedAbort()

    def describe(self):
        return ', '.join('{}:{}{}'.format(
            t.name, t.state, '(' + t.what + ')' if t.what else '')
            for t in self.order if not t.done)

    def block_until(self, pred, what='', timeout=None, timeout_ok=None):
        """returns True when pred held, False on (virtual) time-out.
        timeout_ok: extra condition for the time-out to count (a lock wait
        only times out while the lock's owner cannot run)"""
        me = self.me()
        if me is None:
            raise RuntimeError('unmanaged thread blocks on a shim primitive')
        me.state, me.pred, me.what = 'blocked', pred, what
        me.timeout_at = None if timeout is None else self.vnow + timeout
        me.timeout_ok = timeout_ok
        try:
            self.switch('block:' + what)
        finally:
            me.state, me.pred, me.what = 'ready', None, ''
            self.evaluating += 1
            try:
                timed_out = me.timeout_at is not None and not pred()
            finally:
                self.evaluating -= 1
            me.timeout_at = None
            me.timeout_ok = None
        return not timed_out

    def sleep(self, dt):
        me = self.me()
        if me is None:
            return
        if dt <= 0:
            self.switch('sleep0')
            return
        me.state, me.wake_at, me.what = 'sleep', self.vnow + dt, 'sleep'
        try:
            self.switch('sleep')
        finally:
            me.what = ''

    def finish(self):
        me = self.me()
        me.done = True
        if self.aborting:
            return
        try:
            self.switch('exit')
        except (Deadlock, Livelock, SchedAbort):
            pass

    def abort_all(self):
        """tear-down: every living managed thread unwinds with SchedAbort"""
        self.aborting = True
        for t in self.order:
            if not t.done and t is not self.me():
                t.sem.release()


# ----------------------------------------------------------------- shims

class ShimThread:
    _count = 0

    def __init__(self, group=None, target=None, name=None, args=(),
                 kwargs=None, daemon=None):
        ShimThread._count += 1
        self._target, self._args, self._kw = target, args, kwargs or {}
        self.name = name or getattr(target, '__qualname__', 'thread')
        self.daemon = daemon
        self._rec = None
        self._real = None
        self.exc = None

    def run(self):
        if self._target is not None:
            self._target(*self._args, **self._kw)

    def start(self):
        s = S
        started = _th.Event()

        def boot():
            rec = s.register_current(self.name)
            self._rec = rec
            started.set()
            rec.sem.acquire()
            try:
                if not s.aborting:
                    self.run()
            except SchedAbort:
                pass
            except BaseException as ex:       # noqa: B902  (thread excepthook)
                self.exc = ex
                rec.exc = ex
                _th.excepthook(types.SimpleNamespace(
                    exc_type=type(ex), exc_value=ex,
                    exc_traceback=ex.__traceback__, thread=self))
            finally:
                s.finish()
        self._real = _th.Thread(target=boot, daemon=True)
        self._real.start()
        started.wait()
        s.switch('thread.start')

    def is_alive(self):
        return self._rec is not None and not self._rec.done

    def join(self, timeout=None):
        if self._rec is None:
            return
        S.block_until(lambda: self._rec.done, 'join ' + self.name, timeout)


class ShimRLock:
    """re-entrant; invariants may be attached through on_release (called on
    the outermost release while the lock is still held)"""

    def __init__(self):
        self.owner = None
        self.count = 0
        self.on_release = None

    def acquire(self, blocking=True, timeout=-1):
        me = _th.get_ident()

        def owner_stuck():
            # a time-out of the production code (1 s) fires only while the
            # owner is itself unable to run (blocked or asleep): an owner that
            # is merely passed over by the scheduler would have released the
            # lock long before a real second is over
            rec = S.threads.get(self.owner)
            return rec is not None and not rec.done and \
                rec.state in ('blocked', 'sleep') and not (
                    rec.state == 'blocked' and rec.pred is not None
                    and rec.pred())

        def wait():
            if timeout is None or timeout < 0:
                S.block_until(lambda: self.owner is None, 'lock')
                return True
            return S.block_until(lambda: self.owner is None, 'lock',
                                 timeout, owner_stuck)
        if self.owner not in (None, me):
            if not blocking:
                return False
            if not wait() and self.owner not in (None, me):
                return False
        else:
            S.switch('lock.acquire')
            if self.owner not in (None, me):
                if not wait() and self.owner not in (None, me):
                    return False
        self.owner = me
        self.count += 1
        return True

    def release(self):
        if self.owner != _th.get_ident():
            raise RuntimeError('cannot release un-acquired lock')
        if self.count == 1 and self.on_release is not None:
            self.on_release()
        self.count -= 1
        if self.count == 0:
            self.owner = None
        S.switch('lock.release')

    __enter__ = acquire

    def __exit__(self, *a):
        self.release()


class ShimEvent:
    def __init__(self):
        self.flag = False
        self.gen = 0
        self.waiters = set()
        self.on_fire = None       # callback(waiter names) for monitors
        self.on_wait = None

    def is_set(self):
        return self.flag

    def set(self):
        if self.on_fire is not None:
            self.on_fire(frozenset(self.waiters))
        self.flag = True
        self.gen += 1

    def clear(self):
        self.flag = False

    def wait(self, timeout=None):
        me = S.me()
        if self.on_wait is not None:
            self.on_wait(me.name if me else '?')
        if self.flag:
            return True
        g = self.gen
        name = me.name if me else '?'
        self.waiters.add(name)
        try:
            ok = S.block_until(lambda: self.gen != g, 'event', timeout)
        finally:
            self.waiters.discard(name)
        return ok


shim_threading = types.SimpleNamespace(
    Thread=ShimThread, RLock=ShimRLock, Event=ShimEvent,
    Lock=ShimRLock, get_ident=_th.get_ident,
    current_thread=_th.current_thread)


class VTime:
    @staticmethod
    def time():
        return S.vnow if S is not None else 0.0

    @staticmethod
    def sleep(dt):
        S.sleep(dt)


class VDatetime:
    """virtual wall clock: time of day derived from the virtual seconds"""
    base = _dt.datetime(2024, 1, 1, 0, 0, 0)

    @staticmethod
    def now():
        # reading the wall clock is a yield point: time may pass between two
        # reads made by one statement
        S.switch('now')
        return VDatetime.base + _dt.timedelta(seconds=S.vnow)

    @staticmethod
    def peek():
        """for monitors: the same instant without a scheduling point"""
        return VDatetime.base + _dt.timedelta(seconds=S.vnow)


# ------------------------------------------------------------ instrumentation

def _on_line(code, line):
    s = S
    if s is not None and not s.aborting:
        me = s.threads.get(_th.get_ident())
        if me is not None and not me.done:
            s.switch('{}:{}'.format(code.co_name, line))
    elif s is not None and s.aborting and \
            _th.get_ident() in s.threads and not s.threads[
                _th.get_ident()].done and _th.get_ident() != \
            getattr(s, 'driver_ident', None):
        raise SchedAbort()


def install():
    try:
        sys.monitoring.use_tool_id(TOOL, 'bvf-sched')
    except ValueError:
        pass
    sys.monitoring.register_callback(TOOL, sys.monitoring.events.LINE, _on_line)


def instrument_functions(funcs):
    for f in funcs:
        code = f.__code__
        if code not in _INSTRUMENTED:
            _INSTRUMENTED.add(code)
            sys.monitoring.set_local_events(TOOL, code,
                                            sys.monitoring.events.LINE)


def instrument_module(mod, only=None):
    funcs = []
    for obj in vars(mod).values():
        if isinstance(obj, types.FunctionType) and obj.__module__ == mod.__name__:
            if only is None or obj.__name__ in only:
                funcs.append(obj)
        elif isinstance(obj, type) and obj.__module__ == mod.__name__:
            for f in vars(obj).values():
                f = getattr(f, '__wrapped__', f)
                if isinstance(f, (staticmethod, classmethod)):
                    f = f.__func__
                if isinstance(f, types.FunctionType):
                    if only is None or f.__name__ in only:
                        funcs.append(f)
    instrument_functions(funcs)


def begin(seed, **kw):
    """start a scenario: the calling thread becomes the managed driver"""
    global S
    S = Sched(seed, **kw)
    S.driver_ident = _th.get_ident()
    S.register_current('driver')
    return S


def end():
    """tear the scenario down; returns the scheduler for inspection"""
    global S
    s = S
    if s is None:
        return None
    s.abort_all()
    # wait for the OS threads to unwind
    for t in list(_th.enumerate()):
        # (a thread drops its _target the moment it finishes)
        target = getattr(t, '_target', None)
        if t is not _th.current_thread() and t.daemon and t.is_alive() \
                and getattr(target, '__name__', '') == 'boot':
            t.join(2.0)
    S = None
    return s
