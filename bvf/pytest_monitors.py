"""pytest plugin: run the repository's own test suite under the E5 monitors
(loader image invariants + VM step automata on every ScriptJob execution) and
the E8 LightSet invariant.  A monitor that fires here is either too strict or
has found a defect the tests do not assert (DESIGN.md section 4, item 3).

usage:  cd /repo && PYTHONPATH=/verif /venv/bin/python -m pytest -q \
            -p bvf.pytest_monitors -p no:cacheprovider
"""
import os
import sys

sys.path.append(os.path.join(os.path.dirname(os.path.dirname(
    os.path.abspath(__file__))), '.deps'))

FAULTS = []
COUNTS = {'executions': 0, 'images': 0, 'invariant': 0}


def pytest_configure(config):
    import icontract
    from bvf import vmmon
    from bardolph.controller import light_set, script_job

    vmmon.install_loader_hook()
    orig_execute = script_job.ScriptJob.execute

    def execute(self):
        mon = getattr(self, '_bvf_mon', None)
        if mon is None:
            mon = self._bvf_mon = vmmon.attach(self)
        mon.calls, mon.loops, mon.steps, mon.exhausted = [], 0, 0, False
        vmmon.LAST_LOAD.clear()
        before = vmmon.fingerprint(self.program or [])
        orig_execute(self)
        COUNTS['executions'] += 1
        if vmmon.LAST_LOAD.get('faults'):
            FAULTS.append(('image', vmmon.LAST_LOAD['faults'][:2]))
        if 'image' in vmmon.LAST_LOAD:
            COUNTS['images'] += 1
        mon.finish(stopped=not self._machine._keep_running)
        if mon.faults:
            FAULTS.append(('automaton', mon.faults[:2]))
            mon.faults.clear()
        if before != vmmon.fingerprint(self.program or []):
            FAULTS.append(('program-changed', ''))
    script_job.ScriptJob.execute = execute

    from bvf.props import c13
    inv = c13.directory_consistent

    def counted(self):
        COUNTS['invariant'] += 1
        ok = inv(self)
        if not ok:
            FAULTS.append(('lightset-invariant', c13.INV['last']))
        return True
    light_set.LightSet = icontract.invariant(counted)(light_set.LightSet)


def pytest_terminal_summary(terminalreporter):
    tr = terminalreporter
    tr.write_line('bvf monitors: {} executions, {} images checked, {} LightSet '
                  'invariant evaluations, {} fault(s)'.format(
                      COUNTS['executions'], COUNTS['images'],
                      COUNTS['invariant'], len(FAULTS)))
    for f in FAULTS[:20]:
        tr.write_line('  MONITOR-FAULT {}'.format(f))
