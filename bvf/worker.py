import sys
from bvf import harness
if __name__ == '__main__':
    sys.exit(harness.worker_main(sys.argv[1:]))
