"""E1: simulated LIFX LAN at the `lifxlan` device API boundary.

The production wrappers (LifxLanApi, lifx_lan_light.*, retry.tries, param_helper,
LightSet) stay in place; only `lifxlan.LifxLAN` is replaced by SimLan, which
hands out SimDevice objects.  Every request that reaches a device is appended
to one global, ordered event log (LOG) -- the "device boundary" all
behavioural properties observe -- and is checked by the always-on protocol
range monitor (C07 safety half).

Conventions fixed by the simulator (assumptions, recorded in evidence files):
  * set_zone_color(start, end, ...) colours zones [start, end)  (convention of
    the repository's wrapper, of its fake and of lifxlan.set_zone_colors);
  * "does not answer" == the call raises lifxlan.errors.WorkflowException;
  * power "on" is any truthy level (True, 1, 65535).
"""
import types

from lifxlan.errors import WorkflowException
from lifxlan.msgtypes import (GetDeviceChain, GetTileState64, SetTileState64)

# The global event log.  Entries are tuples whose first element is the kind:
#   ('dev', label, method, args, 'ok'|'FAIL')
#   ('lan', method, args, 'ok'|'FAIL')
#   ('clock', method, args)      (recorders.RecClock)
#   ('out', kind, value)         (recorders.RecOutput)
#   ('log', levelname, message)  (env.LogCapture, WARNING and above)
LOG = []
RANGE_VIOLATIONS = []      # filled by the protocol range monitor
STAMP = None               # optional callable -> logical time (scheduler)
STAMPS = []                # parallel to LOG when STAMP is set
GATE = None                # optional callable(dev_label, method) that may block

U16 = 0xffff
U32 = 0xffffffff


def reset_log():
    LOG.clear()
    RANGE_VIOLATIONS.clear()
    STAMPS.clear()


def emit(entry):
    LOG.append(entry)
    if STAMP is not None:
        STAMPS.append(STAMP())


def _is_u(v, hi):
    return type(v) is int and 0 <= v <= hi


def _chk_color(where, color):
    ok = (isinstance(color, (list, tuple)) and len(color) == 4
          and all(_is_u(c, U16) for c in color))
    if not ok:
        RANGE_VIOLATIONS.append((where, 'color', repr(color)))


def _chk_u(where, what, v, hi):
    if not _is_u(v, hi):
        RANGE_VIOLATIONS.append((where, what, repr(v)))


def _chk_power(where, v):
    # bool is accepted by lifxlan for power ("on" in [True, 1, "on", 65535]).
    if not (type(v) in (int, bool) and 0 <= int(v) <= U16):
        RANGE_VIOLATIONS.append((where, 'power', repr(v)))


class FaultPlan:
    """Maps (label, method) -> {logical_index: k} plus a set of silent
    (label, method|'*') pairs.  A logical request ends on success or after
    three consecutive failed attempts (the documented retry bound)."""

    def __init__(self, targeted=None, silent=None):
        self.targeted = dict(targeted or {})     # (label, method, idx) -> k
        self.silent = set(silent or ())          # (label, method) / (label,'*')
        self._logical = {}                       # (label, method) -> idx
        self._streak = {}                        # (label, method) -> fails
        self.triggered = set()

    def should_fail(self, label, method):
        key = (label, method)
        if (label, '*') in self.silent or key in self.silent:
            self.triggered.add(('silent', label, method))
            return True
        idx = self._logical.get(key, 0)
        k = self.targeted.get((label, method, idx), 0)
        streak = self._streak.get(key, 0)
        if streak < k:
            streak += 1
            self.triggered.add((label, method, idx))
            if streak >= 3:
                self._logical[key] = idx + 1
                self._streak[key] = 0
            else:
                self._streak[key] = streak
            return True
        self._logical[key] = idx + 1
        self._streak[key] = 0
        return False


NO_FAULTS = FaultPlan()
PLAN = NO_FAULTS


def set_plan(plan):
    global PLAN
    PLAN = plan or NO_FAULTS


class SimDevice:
    def __init__(self, label, group, location, kind='plain', zones=0,
                 height=0, width=0, color=None, power=0):
        self.label, self.group, self.location = label, group, location
        self.kind = kind
        self.color = list(color or [0, 0, 0, 0])
        self.power = power
        self.zones = [[0, 0, 0, 0] for _ in range(zones)]
        self.height, self.width = height, width
        self.cells = [[0, 0, 0, 0] for _ in range(height * width)]
        self.tile_msgs = 0
        self.zone_msgs = 0

    def __repr__(self):
        return 'SimDevice({!r},{!r},{!r},{})'.format(
            self.label, self.group, self.location, self.kind)

    def describe(self):
        d = {'label': self.label, 'group': self.group,
             'location': self.location, 'kind': self.kind}
        if self.kind == 'mz':
            d['zones'] = len(self.zones)
        if self.kind == 'matrix':
            d['height'], d['width'] = self.height, self.width
        return d

    # -- plumbing ---------------------------------------------------------
    def _req(self, method, *args):
        if GATE is not None:
            GATE(self.label, method)
        if PLAN.should_fail(self.label, method):
            emit(('dev', self.label, method, args, 'FAIL'))
            raise WorkflowException('no answer: {} {}'.format(
                self.label, method))
        emit(('dev', self.label, method, args, 'ok'))

    # -- identity -----------------------------------------------------------
    def get_label(self):
        self._req('get_label')
        return self.label

    def get_group(self):
        self._req('get_group')
        return self.group

    def get_location(self):
        self._req('get_location')
        return self.location

    def get_product_features(self):
        self._req('get_product_features')
        return {'multizone': self.kind == 'mz', 'matrix': self.kind == 'matrix',
                'color': True}

    def get_product_name(self):
        self._req('get_product_name')
        return 'Sim ' + self.kind

    # -- plain light --------------------------------------------------------
    def get_color(self):
        self._req('get_color', tuple(self.color))
        return tuple(self.color)

    def set_color(self, color, duration=0, rapid=False):
        _chk_color(self.label + '.set_color', color)
        _chk_u(self.label + '.set_color', 'duration', duration, U32)
        self._req('set_color', list(color), duration, rapid)
        self.color = list(color)
        if self.kind == 'mz':
            self.zones = [list(color) for _ in self.zones]
        if self.kind == 'matrix':
            self.cells = [list(color) for _ in self.cells]

    def get_power(self):
        self._req('get_power')
        return self.power

    def set_power(self, power, duration=0, rapid=False):
        _chk_power(self.label + '.set_power', power)
        _chk_u(self.label + '.set_power', 'duration', duration, U32)
        self._req('set_power', power, duration, rapid)
        self.power = 65535 if power else 0

    # -- multizone ----------------------------------------------------------
    def get_color_zones(self, start=None, end=None):
        self._req('get_color_zones', start, end)
        return [tuple(z) for z in self.zones]

    def set_zone_color(self, start_index, end_index, color, duration=0,
                       rapid=False, apply=1):
        where = self.label + '.set_zone_color'
        _chk_color(where, color)
        _chk_u(where, 'duration', duration, U32)
        _chk_u(where, 'start_index', start_index, 255)
        _chk_u(where, 'end_index', end_index, 256)
        self._req('set_zone_color', start_index, end_index, list(color),
                  duration)
        self.zone_msgs += 1
        if type(start_index) is int and type(end_index) is int:
            for i in range(max(0, start_index), min(end_index, len(self.zones))):
                self.zones[i] = list(color)

    # -- matrix -------------------------------------------------------------
    def req_with_resp(self, msg_type, resp_type, payload=None, **_):
        self._req('req:' + msg_type.__name__)
        if msg_type is GetDeviceChain:
            return types.SimpleNamespace(
                start_index=0,
                tile_devices=[{'width': self.width, 'height': self.height}])
        if msg_type is GetTileState64:
            return types.SimpleNamespace(colors=[tuple(c) for c in self.cells])
        raise AssertionError('unexpected message type ' + repr(msg_type))

    def fire_and_forget(self, msg_type, payload=None, **_):
        where = self.label + '.SetTileState64'
        if msg_type is SetTileState64:
            colors = payload.get('colors')
            if not isinstance(colors, (list, tuple)):
                RANGE_VIOLATIONS.append((where, 'colors', repr(colors)[:80]))
                colors = []
            for c in colors:
                _chk_color(where, c)
            _chk_u(where, 'duration', payload.get('duration'), U32)
            snapshot = {
                'colors': [list(c) if isinstance(c, (list, tuple)) else c
                           for c in colors],
                'duration': payload.get('duration'),
                'width': payload.get('width'),
                'height': payload.get('height'),
                'tile_index': payload.get('tile_index'),
                'length': payload.get('length'),
                'x': payload.get('x'), 'y': payload.get('y')}
            self._req('SetTileState64', snapshot)
            self.tile_msgs += 1
            n = len(self.cells)
            for i, c in enumerate(snapshot['colors'][:n]):
                if isinstance(c, list) and len(c) == 4:
                    self.cells[i] = list(c)
        else:
            self._req('ff:' + msg_type.__name__, payload)

    # state as a comparable value
    def state(self):
        return {'color': list(self.color), 'power': self.power,
                'zones': [list(z) for z in self.zones],
                'cells': [list(c) for c in self.cells]}


class SimLan:
    """Stand-in for lifxlan.LifxLAN."""
    devices = []

    def __init__(self, num_lights=None, verbose=False):
        self.num_lights = num_lights

    def get_lights(self):
        if PLAN.should_fail('*', 'get_lights'):
            emit(('lan', 'get_lights', (), 'FAIL'))
            raise WorkflowException('no answer: get_lights')
        emit(('lan', 'get_lights', (), 'ok'))
        return list(SimLan.devices)

    def set_color_all_lights(self, color, duration=0, rapid=False):
        _chk_color('*.set_color_all_lights', color)
        _chk_u('*.set_color_all_lights', 'duration', duration, U32)
        emit(('lan', 'set_color_all_lights', (list(color), duration, rapid),
              'ok'))
        for d in SimLan.devices:
            d.color = list(color)
            if d.kind == 'mz':
                d.zones = [list(color) for _ in d.zones]
            if d.kind == 'matrix':
                d.cells = [list(color) for _ in d.cells]

    def set_power_all_lights(self, power_level, duration=0, rapid=False):
        _chk_power('*.set_power_all_lights', power_level)
        _chk_u('*.set_power_all_lights', 'duration', duration, U32)
        emit(('lan', 'set_power_all_lights', (power_level, duration, rapid),
              'ok'))
        for d in SimLan.devices:
            d.power = 65535 if power_level else 0


def make_devices(descs):
    """descs: list of dicts as produced by SimDevice.describe()."""
    out = []
    for d in descs:
        out.append(SimDevice(
            d['label'], d['group'], d['location'], d.get('kind', 'plain'),
            zones=d.get('zones', 0), height=d.get('height', 0),
            width=d.get('width', 0), color=d.get('color'),
            power=d.get('power', 0)))
    return out
