"""E5: step monitor on the real VM + structural invariant at the loader hook.

attach(job) wraps every entry of the machine's dispatch table; per executed
instruction the automata below see the instruction object, pc, call stack,
evaluation stack.  `bardolph.vm.machine.Loader` is replaced by a subclass
that hands the pre-load program and the loaded image to `check_image`.

Online automata (each failure is appended to Monitor.faults):
  pc-range        0 <= pc < len(image) at every fetch; 0 <= pc at exit
  segment         pc inside routine R's segment  =>  shadow call depth >= 1 and
                  the innermost user call is a call of R
  call/return     JSR pushes (return pc, loop depth); END/RETURN pops it and
                  control resumes directly after the call
  loop pairing    LOOP/END_LOOP balance per call; never below zero
  quiescence      at the end of a run that was not stopped: root frame, empty
                  shadow stacks, empty evaluation stack, no pending output
  coverage        executed instructions; outcomes of every conditional jump
  immutability    fingerprint of the compiled program before == after

Whole-image invariants at load (every jump, executed or not):
  target identity every jump lands on the same instruction object as in the
                  pre-load program (the loader re-uses the objects)
  segments        no jump crosses a routine boundary; targets within the image
  routines        every JSR names a routine of the table; address/return of a
                  routine bracket exactly ROUTINE(name) .. END(name)
  balance         LOOP/END_LOOP depth is the same along all paths to an
                  instruction, 0 at END of a routine and at the end of main
"""
from bardolph.controller.routine import RuntimeRoutine
from bardolph.vm import machine as machine_mod
from bardolph.vm.call_stack import LoopFrame
from bardolph.vm.loader import Loader as RealLoader
from bardolph.vm.vm_codes import JumpCondition, OpCode, Operand

LAST_LOAD = {}


def fingerprint(program):
    out = []
    for inst in program:
        p1 = inst.param1
        if inst.op_code is OpCode.TIME_PATTERN and p1 is not None:
            try:
                p1 = ('tp', tuple(sorted(
                    h * 60 + m for h in range(24) for m in range(60)
                    if p1.match(h, m))))
            except Exception as ex:     # noqa
                p1 = ('tp-error', repr(ex))
        out.append((inst.op_code, repr(inst.param0), repr(p1)
                    if not isinstance(p1, tuple) else p1))
    return out


def jump_target(prog, j):
    inst = prog[j]
    if inst.op_code is not OpCode.JUMP or \
            inst.param0 is JumpCondition.INDIRECT:
        return None
    off = inst.param1
    if not isinstance(off, int) or isinstance(off, bool):
        return 'bad-offset:{!r}'.format(off)
    return j + off


def check_image(pre, image, routines):
    """returns a list of fault strings"""
    faults = []
    n = len(image)
    pos = {id(inst): i for i, inst in enumerate(image)}
    pre_pos = {id(inst): i for i, inst in enumerate(pre)}
    # routine segments
    seg = [None] * (n + 1)
    user = {name: r for name, r in routines.items()
            if not isinstance(r, RuntimeRoutine)}
    for name, r in user.items():
        a, b = r.get_address(), r.get_return()
        if not (isinstance(a, int) and isinstance(b, int) and 1 <= a <= b <= n):
            faults.append('routine {}: address/return {}..{} outside image of '
                          '{}'.format(name, a, b, n))
            continue
        head, tail = image[a - 1], image[b - 1]
        if not (head.op_code is OpCode.ROUTINE and head.param0 == name):
            faults.append('routine {}: address {} is not preceded by its '
                          'ROUTINE marker ({})'.format(name, a, head))
        if not (tail.op_code is OpCode.END and tail.param0 == name):
            faults.append('routine {}: return {} does not follow its END ({})'
                          .format(name, b, tail))
        for i in range(a - 1, b):
            if seg[i] is not None:
                faults.append('routines {} and {} overlap at {}'.format(
                    seg[i], name, i))
            seg[i] = name
    for i, inst in enumerate(image):
        if inst.op_code is OpCode.JSR:
            if inst.param0 not in routines:
                faults.append('JSR at {} names missing routine {!r}'.format(
                    i, inst.param0))
        if inst.op_code is OpCode.ROUTINE and seg[i] is None:
            faults.append('ROUTINE marker {} at {} outside any routine '
                          'segment'.format(inst.param0, i))
        t = jump_target(image, i)
        if t is None:
            continue
        if not isinstance(t, int):
            faults.append('jump at {}: {}'.format(i, t))
            continue
        if not 0 <= t <= n:
            faults.append('jump at {} leads to {} outside the image (0..{})'
                          .format(i, t, n))
            continue
        if seg[i] != (seg[t] if t < n else None) and not (
                t == n and seg[i] is None):
            faults.append('jump at {} ({}) leads to {} ({})'.format(
                i, seg[i] or 'main', t, (seg[t] if t < n else None) or 'main'))
        # identity against the pre-load program
        k = pre_pos.get(id(inst))
        if k is None:
            continue            # the loader's own leading jump
        tp = jump_target(pre, k)
        if not isinstance(tp, int):
            continue
        want = pre[tp] if 0 <= tp < len(pre) else None     # None = end
        got = image[t] if t < n else None
        # targets that are routine definitions move out of line: the first
        # instruction behind the definition is what the source says comes next
        while want is not None and want.op_code is OpCode.ROUTINE:
            name = want.param0
            tp += 1
            while tp < len(pre) and not (
                    pre[tp].op_code is OpCode.END and pre[tp].param0 == name):
                tp += 1
            tp += 1
            want = pre[tp] if tp < len(pre) else None
        while got is not None and got.op_code is OpCode.NOP and \
                id(got) not in pre_pos:
            t += 1                      # filler left by the loader
            got = image[t] if t < n else None
        if want is not got:
            faults.append(
                'jump #{} of the source ({}) led to #{} {} before loading and '
                'leads to {} afterwards'.format(
                    k, inst, pre_pos.get(id(want)), want, got))
    faults.extend(check_balance(image, seg, user))
    return faults


def check_balance(image, seg, user):
    """LOOP/END_LOOP depth by data-flow over the instruction graph"""
    faults = []
    n = len(image)
    depth = {}
    work = []
    entries = [0] + [r.get_address() for r in user.values()
                     if isinstance(r.get_address(), int)]
    for e in entries:
        if 0 <= e < n:
            depth[e] = 0
            work.append(e)
    while work:
        i = work.pop()
        d = depth[i]
        inst = image[i]
        op = inst.op_code
        succ = []
        if op is OpCode.LOOP:
            d += 1
        elif op is OpCode.END_LOOP:
            d -= 1
            if d < 0:
                faults.append('END_LOOP at {} without an open loop'.format(i))
                continue
        if op is OpCode.JUMP and inst.param0 is not JumpCondition.INDIRECT:
            t = jump_target(image, i)
            if isinstance(t, int) and 0 <= t <= n:
                succ.append(t)
            if inst.param0 is not JumpCondition.ALWAYS:
                succ.append(i + 1)
        elif op is OpCode.RETURN:
            succ = []
        elif op is OpCode.END and inst.param0 is not Operand.MATRIX:
            if d != 0:
                faults.append('END of routine {} at {} reached with {} open '
                              'loop(s)'.format(inst.param0, i, d))
            succ = []
        elif op is OpCode.STOP:
            succ = []
        else:
            succ = [i + 1]
        for s in succ:
            if s >= n:
                if seg[i] is None and d != 0:
                    faults.append('end of program reached from {} with {} '
                                  'open loop(s)'.format(i, d))
                continue
            if s in depth:
                if depth[s] != d:
                    faults.append('instruction {} reached with loop depth {} '
                                  'and {}'.format(s, depth[s], d))
            else:
                depth[s] = d
                work.append(s)
    return faults


class MonLoader(RealLoader):
    def load(self, instructions):
        self._pre = list(instructions) if instructions is not None else []
        if instructions is not None and not isinstance(instructions, list):
            # a one-shot iterable: the copy just taken is what the real loader
            # gets, so that looking does not use up what it looks at
            instructions = list(self._pre)
        return super().load(instructions)

    def get_code(self):
        code = super().get_code()
        LAST_LOAD['pre'] = self._pre
        LAST_LOAD['image'] = code
        LAST_LOAD['routines'] = self.get_routines()
        try:
            LAST_LOAD['faults'] = check_image(self._pre, code,
                                              self.get_routines())
        except Exception as ex:
            LAST_LOAD['faults'] = ['image check crashed: {!r}'.format(ex)]
        return code


def install_loader_hook():
    machine_mod.Loader = MonLoader


class Monitor:
    def __init__(self, machine, step_limit=400000):
        self.m = machine
        self.faults = []
        self.calls = []          # shadow: (routine name, return pc, loops)
        self.loops = 0           # open loops of the current call
        self.executed = set()    # id(instruction)
        self.outcomes = {}       # id(jump) -> set of bools (taken)
        self.run_jumps = set()   # conditional jumps executed in this run
        self.steps = 0
        self.step_limit = step_limit
        self.exhausted = False
        self.stop_at = None      # ask the machine to stop at this step (C17/C09)
        self.stopped_at = None
        self.seg = None
        self.n = 0
        self.image = None

    def fault(self, msg):
        if len(self.faults) < 10:
            self.faults.append(msg)

    def prepare(self):
        """(re)compute segments from the most recent load"""
        image = self.m._program
        self.image = image
        self.n = len(image)
        self.seg = [None] * (self.n + 1)
        for name, r in self.m._routines.items():
            if isinstance(r, RuntimeRoutine):
                continue
            a, b = r.get_address(), r.get_return()
            if isinstance(a, int) and isinstance(b, int):
                for i in range(max(a - 1, 0), min(b, self.n)):
                    self.seg[i] = name

    def wrap(self, op, fn):
        m = self.m
        reg = m._reg

        def stepped():
            if self.image is not m._program:
                self.prepare()
            pc = reg.pc
            self.steps += 1
            if self.stop_at is not None and self.steps == self.stop_at:
                self.stopped_at = pc
                m.stop()         # as ScriptJob.request_stop() does
            if self.steps > self.step_limit:
                self.exhausted = True
                m.stop()
                reg.pc = self.n + 1
                return
            if not (isinstance(pc, int) and 0 <= pc < self.n):
                self.fault('fetch at pc {!r} outside 0..{}'.format(pc, self.n - 1))
                fn()
                return
            inst = self.image[pc]
            self.executed.add(id(inst))
            seg = self.seg[pc]
            if seg is not None:
                if not self.calls:
                    self.fault('pc {} is inside routine {} but no call is '
                               'active'.format(pc, seg))
                elif self.calls[-1][0] != seg:
                    self.fault('pc {} is inside routine {} but the active call '
                               'is {}'.format(pc, seg, self.calls[-1][0]))
            elif self.calls:
                self.fault('pc {} is in the main segment but {} call(s) are '
                           'active ({})'.format(pc, len(self.calls),
                                                self.calls[-1][0]))
            if op is OpCode.JSR:
                rt = m._routines.get(inst.param0)
                if rt is None:
                    self.fault('JSR to missing routine {!r} at {}'.format(
                        inst.param0, pc))
                elif not isinstance(rt, RuntimeRoutine):
                    # the frame made by CTX is on top; its parent is the frame
                    # the caller must find again after the call
                    self.calls.append((inst.param0, pc + 1, self.loops,
                                       m._call_stack._top.parent))
                    self.loops = 0
            elif op is OpCode.LOOP:
                self.loops += 1
            elif op is OpCode.END_LOOP:
                self.loops -= 1
                if self.loops < 0:
                    self.fault('END_LOOP at {} without an open loop in this '
                               'call'.format(pc))
                    self.loops = 0
            fn()
            new = reg.pc
            if op is OpCode.JUMP and inst.param0 is not JumpCondition.INDIRECT \
                    and inst.param0 is not JumpCondition.ALWAYS:
                self.outcomes.setdefault(id(inst), set()).add(new != pc + 1)
                self.run_jumps.add(id(inst))
            elif op is OpCode.RETURN or (
                    op is OpCode.END and inst.param0 is not Operand.MATRIX):
                if not self.calls:
                    self.fault('{} at {} with no call active'.format(
                        op.name, pc))
                else:
                    name, ret, loops, frame = self.calls.pop()
                    if op is OpCode.END and self.loops != 0:
                        self.fault('routine {} ended at {} with {} loop(s) '
                                   'open'.format(name, pc, self.loops))
                    self.loops = loops
                    # END resumes at ret; RETURN is followed by the loop's +1
                    land = new + (1 if op is OpCode.RETURN else 0)
                    ok = land == ret or (
                        land == ret + 1 and ret < self.n
                        and self.image[ret].op_code is OpCode.END_CTX)
                    if not ok:
                        self.fault('{} of {} at {} resumes at {} instead of '
                                   'directly after the call ({})'.format(
                                       op.name, name, pc, land, ret))
                    # frames: the VM's stack must be back at the caller's frame
                    if m._call_stack._top is not frame:
                        self.fault('after {} of {} at {} the call stack is not '
                                   'back at the caller\'s frame'.format(
                                       op.name, name, pc))
        return stepped

    def finish(self, stopped=False):
        m = self.m
        pc = m._reg.pc
        if self.exhausted or stopped:
            return
        if not (isinstance(pc, int) and 0 <= pc):
            self.fault('run ended with pc {!r}'.format(pc))
        top = m._call_stack._top
        if isinstance(top, LoopFrame) or top.parent is not None:
            self.fault('run ended with a dangling frame on the call stack')
        if self.calls:
            self.fault('run ended inside {} call(s)'.format(len(self.calls)))
        if self.loops:
            self.fault('run ended with {} loop(s) open'.format(self.loops))
        stack = m._vm_math._eval_stack._stack
        if len(stack):
            self.fault('run ended with {} value(s) on the evaluation stack'
                       .format(len(stack)))
        if m._vm_io._unnamed:
            self.fault('run ended with pending output {!r}'.format(
                m._vm_io._unnamed))


def attach(job, step_limit=400000):
    machine = job._machine
    mon = Monitor(machine, step_limit)
    table = machine._fn_table
    for op in list(table):
        table[op] = mon.wrap(op, table[op])
    return mon
