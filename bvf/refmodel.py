"""E4: reference interpreter = online trace checker.

Written from docs/language.rst and the property statements (C01-C04, C07,
C14, C15, C19), never from the parser/VM.  It walks the generated AST (see
bvf/gen.py for the node shapes) and, at every point where the script must
produce an observable event (device request, delay request, output), consumes
the next event(s) of the *actual* log recorded at the boundary and compares.
The first disagreement raises Mismatch with both sides.

Where the statements are silent the matcher is permissive:
  * order of the per-member requests inside one group/location action;
  * a delay request directly in front of `set default` or `get` is optional;
  * exact .5 rounding ties (half a raw unit tolerance, hue on the circle).
"""
import math
import re
import string
from fractions import Fraction as F

from bvf import oracle

COLOR_REGS = ('hue', 'saturation', 'brightness', 'kelvin', 'red', 'green',
              'blue')
ALL_REGS = COLOR_REGS + ('duration', 'time')


class Mismatch(Exception):
    def __init__(self, kind, expected, actual, index, where):
        super().__init__('{}: expected {} got {} (event #{}, at {})'.format(
            kind, expected, actual, index, where))
        self.kind, self.expected, self.actual = kind, expected, actual
        self.index, self.where = index, where


class Undecidable(Exception):
    """The program left the domain in which the statements decide the result
    (generator slip); the case is discarded and counted."""


class _Break(Exception):
    pass


class _Return(Exception):
    def __init__(self, value):
        self.value = value


import sys as _sys


class Population:
    def __init__(self, descs):
        self.devs = {d['label']: d for d in descs}
        self.names = sorted(self.devs)
        self.groups, self.locations = {}, {}
        for n in self.names:
            d = self.devs[n]
            self.groups.setdefault(d['group'], []).append(n)
            self.locations.setdefault(d['location'], []).append(n)

    def kind(self, name):
        d = self.devs.get(name)
        return d.get('kind', 'plain') if d else None


def stream_of(log):
    """The observable events, in order."""
    out = []
    for e in log:
        k = e[0]
        if k in ('dev', 'lan'):
            if e[-1] == 'ok':
                out.append(e)
        elif k == 'clock':
            if e[1] in ('pause_for', 'wait_until'):
                out.append(e)
        elif k == 'out':
            if e[1] != 'flush':
                out.append(e)
    return out


_NUM = re.compile(r'-?\d+\.\d+(?:e[-+]?\d+)?')


def close_text(a, b):
    """strings equal up to the last digits of floating-point numbers in them
    (values derived from a light's reply differ in the last ulp depending on
    the order of the conversion arithmetic)"""
    if a == b:
        return True
    na, nb = _NUM.findall(a), _NUM.findall(b)
    if len(na) != len(nb) or _NUM.sub('#', a) != _NUM.sub('#', b):
        return False
    return all(close(float(x), float(y)) for x, y in zip(na, nb))


def close(a, b, rel=1e-9, abs_=1e-9):
    if isinstance(a, bool) or isinstance(b, bool):
        return type(a) is type(b) and a == b
    if isinstance(a, str) and isinstance(b, str):
        return close_text(a, b)
    if isinstance(a, str) or isinstance(b, str):
        return False
    if a is None or b is None:
        return a is b
    try:
        if a == b:
            return True
        return abs(a - b) <= max(abs_, rel * max(abs(a), abs(b)))
    except (TypeError, OverflowError):
        return False


BUILTINS = {
    'round': lambda x: round(x),
    'trunc': lambda x: math.trunc(x),
    'floor': lambda x: math.floor(x),
    'ceil': lambda x: math.ceil(x),
    'sqrt': lambda x: math.sqrt(x),
    'sin': lambda x: math.sin(math.radians(x)),
    'cos': lambda x: math.cos(math.radians(x)),
    'tan': lambda x: math.tan(math.radians(x)),
    'asin': lambda x: math.degrees(math.asin(x)),
    'acos': lambda x: math.degrees(math.acos(x)),
    'atan': lambda x: math.degrees(math.atan(x)),
    'cycle': lambda x: x % 360 if not 0 <= x < 360 else x,
}


class Ref:
    def __init__(self, program, population, decisions, actual,
                 spec_table=None, max_steps=200000):
        self.prog = program
        self.pop = population
        from bvf.env import Decisions
        self.decisions = Decisions()
        self.decisions.load(decisions or [])
        self.actual = actual
        self.pos = 0
        self.regs = {r: 0.0 for r in ALL_REGS}
        self.mode = 'logical'
        self.default = None            # raw colour (ideal Fractions) or None
        self.globals = {}
        self.macros = {}
        self.routines = {}
        self.scopes = []               # call scopes: {'params':{}, 'locals':{}}
        self.where = []
        self.steps = 0
        self.max_steps = max_steps
        self.matrix = None             # staging: dict cell->colour spec
        self.spec_table = spec_table
        self.stats = {}
        self.time_pattern = None       # list of pattern strings when set
        # optional delay requests (in front of `set default` / `get`): the
        # decisions taken so far; `forced` replays a prefix of decisions
        self.credits = []

    # ------------------------------------------------------------------ util
    def stat(self, k):
        self.stats[k] = self.stats.get(k, 0) + 1

    def tick(self):
        self.steps += 1
        if self.steps > self.max_steps:
            raise Undecidable('step budget exhausted')

    def here(self):
        return ' > '.join(self.where[-4:])

    def peek(self):
        return self.actual[self.pos] if self.pos < len(self.actual) else None

    def take(self):
        e = self.peek()
        if e is not None:
            self.pos += 1
        return e

    def fail(self, kind, expected, actual):
        raise Mismatch(kind, expected, actual, self.pos, self.here())

    # --------------------------------------------------------------- scoping
    def lookup(self, name):
        if self.scopes:
            sc = self.scopes[-1]
            if name in sc['params']:
                return sc['params'][name]
            if name in sc['locals']:
                return sc['locals'][name]
        if name in self.globals:
            return self.globals[name]
        raise Undecidable('read of unassigned variable ' + name)

    def store(self, name, value):
        if self.scopes:
            sc = self.scopes[-1]
            if name in sc['params']:
                sc['params'][name] = value
                return
            if name in self.globals:
                self.globals[name] = value
                return
            sc['locals'][name] = value
        else:
            self.globals[name] = value

    # ----------------------------------------------------------- expressions
    def ev(self, e):
        t = e[0]
        if t == 'num' or t == 'str':
            return e[1]
        if t == 'var':
            return self.lookup(e[1])
        if t == 'macro':
            if e[1] not in self.macros:
                raise Undecidable('macro used before definition')
            return self.macros[e[1]]
        if t == 'reg':
            v = self.regs[e[1]]
            if e[1] == 'time' and self.time_pattern is not None:
                raise Undecidable('time register holds a pattern')
            return v
        if t == 'paren':
            return self.ev(e[1])
        if t == 'neg':
            return self.ev(e[1]) * -1
        if t == 'pos':
            return self.ev(e[1])
        if t == 'bin':
            return self.binop(e[1], self.ev(e[2]), self.ev(e[3]))
        if t == 'choose':
            return self.decisions.next(e[1])
        if t == 'call':
            return self.call(e[1], [self.ev(a) for a in e[2]], want_value=True)
        raise AssertionError('bad expr ' + repr(e))

    def binop(self, op, a, b):
        try:
            if op == '+':
                return a + b
            if op == '-':
                return a - b
            if op == '*':
                return a * b
            if op == '/':
                return a / b
            if op == '%':
                return a % b
            if op == '^':
                return a ** b
            if op == '<':
                return a < b
            if op == '<=':
                return a <= b
            if op == '>':
                return a > b
            if op == '>=':
                return a >= b
            if op == '==':
                return a == b
            if op == '!=':
                return a != b
            if op == 'and':
                return bool(a) and bool(b)
            if op == 'or':
                return bool(a) or bool(b)
        except (ZeroDivisionError, OverflowError, TypeError, ValueError) as ex:
            raise Undecidable('script-level arithmetic error: {}'.format(ex))
        raise AssertionError(op)

    def call(self, name, args, want_value=False):
        self.tick()
        if name in BUILTINS:
            try:
                v = BUILTINS[name](*args)
            except (ValueError, OverflowError, TypeError) as ex:
                raise Undecidable('built-in domain: {}'.format(ex))
            return v
        if name == 'random':
            raise Undecidable('random is judged statistically (C02)')
        rt = self.routines.get(name)
        if rt is None:
            raise Undecidable('call of a routine not yet defined: ' + name)
        params, body = rt
        if len(self.scopes) > 700:
            raise Undecidable('recursion too deep')
        self.scopes.append({'params': dict(zip(params, args)), 'locals': {}})
        self.where.append('call ' + name)
        result = None
        returned = False
        try:
            self.block(body)
        except _Return as r:
            result = r.value
            returned = True
        finally:
            self.where.pop()
            self.scopes.pop()
        if want_value and not (returned and result is not None):
            raise Undecidable('value of a routine that returned nothing')
        return result

    # --------------------------------------------------------------- colours
    def ideal_color(self):
        r = self.regs
        if self.mode == 'rgb':
            for c in ('red', 'green', 'blue'):
                if not 0 <= r[c] <= 100:
                    raise Undecidable('rgb percentage outside 0..100')
            return oracle.ideal_color('rgb', r['red'], r['green'], r['blue'],
                                      r['kelvin'])
        return oracle.ideal_color(self.mode, r['hue'], r['saturation'],
                                  r['brightness'], r['kelvin'])

    def hue_free(self, ideal):
        return self.mode == 'rgb' and (ideal[1] <= 1 or ideal[2] <= 1)

    def ideal_duration(self):
        return oracle.ideal_duration(self.mode, self.regs['duration'])

    def chk_color(self, sent, ideal, what):
        if not (isinstance(sent, (list, tuple)) and len(sent) == 4):
            self.fail(what + ' colour', [float(x) for x in ideal], sent)
        msg = oracle.color_ok(sent, ideal, hue_free=self.hue_free(ideal))
        if msg:
            self.fail(what + ' colour', [round(float(x), 2) for x in ideal],
                      '{} ({})'.format(sent, msg))

    def chk_duration(self, sent, what):
        msg = oracle.duration_ok(sent, self.ideal_duration())
        if msg:
            self.fail(what + ' duration', float(self.ideal_duration()), sent)

    # ---------------------------------------------------------------- events
    # Optional delay requests (in front of `set default` and `get`, where the
    # statements do not say whether the script waits): the optional request
    # becomes a credit; a surplus delay event met before the next non-delay
    # event is consumed against a credit.  Linear, no search.
    def _delay_key(self):
        if self.time_pattern is not None:
            return ('wait_until', tuple(self.time_pattern))
        t = self.regs['time']
        try:
            if not t > 0:
                return None
        except TypeError:
            raise Undecidable('non-numeric time')
        return ('pause_for', t / 1000.0 if self.mode == 'raw' else t)

    def _matches(self, e, key):
        if e is None or e[0] != 'clock' or e[1] != key[0]:
            return False
        if key[0] == 'pause_for':
            return close(e[2][0], key[1])
        if self.spec_table is not None and len(e[2]) > 1:
            want = frozenset().union(*[self.spec_table(p) for p in key[1]])
            return e[2][1] == want
        return True

    def absorb_optional(self):
        """consume surplus delay events covered by credits"""
        while self.credits:
            e = self.peek()
            hit = None
            for i, key in enumerate(self.credits):
                if self._matches(e, key):
                    hit = i
                    break
            if hit is None:
                return
            del self.credits[hit]
            self.take()
            self.stat('ev:delay-optional')

    def expect_delay(self, optional=False):
        key = self._delay_key()
        if key is None:
            return
        if optional:
            self.credits.append(key)
            return
        while True:
            e = self.peek()
            if self._matches(e, key):
                break
            hit = None
            for i, ck in enumerate(self.credits):
                if self._matches(e, ck):
                    hit = i
                    break
            if hit is None:
                self.fail('delay request' if key[0] == 'pause_for'
                          else 'time-of-day wait', key, e)
            del self.credits[hit]
            self.take()
            self.stat('ev:delay-optional')
        self.take()
        self.stat('ev:delay' if key[0] == 'pause_for' else 'ev:wait_until')

    def expect_devs(self, specs, what):
        """specs: list of (label, method, checker(args)); any order."""
        need = {}
        for label, method, chk in specs:
            need.setdefault((label, method), []).append(chk)
        if specs:
            self.absorb_optional()
        for _ in range(len(specs)):
            e = self.peek()
            if e is None or e[0] != 'dev' or (e[1], e[2]) not in need:
                self.fail(what, sorted(k for k, v in need.items() if v), e)
            self.take()
            chk = need[(e[1], e[2])].pop()
            if not need[(e[1], e[2])]:
                del need[(e[1], e[2])]
            chk(e[3])
            self.stat('ev:' + e[2])
            self.credits.clear()

    def expect_lan(self, method, chk):
        self.absorb_optional()
        e = self.peek()
        if e is None or e[0] != 'lan' or e[1] != method:
            self.fail('broadcast', method, e)
        self.take()
        chk(e[2])
        self.stat('ev:' + method)
        self.credits.clear()

    def expect_out(self, kind, value=None):
        self.absorb_optional()
        e = self.peek()
        if e is None or e[0] != 'out' or e[1] != kind:
            self.fail('output', (kind, value), e)
        if kind == 'out' and not close(e[2], value):
            self.fail('printed value', repr(value), repr(e[2]))
        self.take()
        self.stat('ev:' + kind)
        self.credits.clear()

    # ------------------------------------------------------------ statements
    def run(self):
        self.block(self.prog)
        self.absorb_optional()
        if self.pos != len(self.actual):
            self.fail('end of script', 'no further events', self.peek())

    def block(self, stmts):
        for s in stmts:
            self.stmt(s)

    def stmt(self, s):
        self.tick()
        t = s[0]
        self.stat('st:' + t)
        self.where.append(t if t != 'repeat' else 'repeat-' + s[1])
        try:
            getattr(self, 's_' + t)(s)
        finally:
            self.where.pop()

    def s_setreg(self, s):
        v = self.ev(s[2])
        self.regs[s[1]] = v
        if s[1] == 'time':
            self.time_pattern = None

    def s_time_at(self, s):
        pats = []
        for p in s[1]:
            if p[0] == 'lit':
                pats.append(p[1])
            else:
                pats.append(self.macros[p[1]][1])
        self.time_pattern = pats

    def s_units(self, s):
        new = s[1]
        old = self.mode
        if new == old:
            self.stat('units:same')
            return
        self.stat('units:{}>{}'.format(old, new))
        r = self.regs
        if old == 'rgb':
            src = oracle.ideal_color('rgb', r['red'], r['green'], r['blue'], 0)
        else:
            src = oracle.ideal_color(old, r['hue'], r['saturation'],
                                     r['brightness'], 0)
        # src = unrounded raw h, s, b of the colour the registers denote
        if new == 'raw':
            r['hue'], r['saturation'], r['brightness'] = [float(x)
                                                          for x in src[:3]]
        elif new == 'logical':
            r['hue'] = float(src[0] * 360 / 65535)
            r['saturation'] = float(src[1] * 100 / 65535)
            r['brightness'] = float(src[2] * 100 / 65535)
        else:
            h = src[0] / 65535 % 1 if src[0] != 65535 else F(0)
            rgb = oracle.hsv_to_rgb_exact(h, src[1] / 65535, src[2] / 65535)
            r['red'], r['green'], r['blue'] = [float(x * 100) for x in rgb]
        if new == 'raw':
            r['duration'] = r['duration'] * 1000.0
            if self.time_pattern is None:
                r['time'] = r['time'] * 1000.0
        elif old == 'raw':
            r['duration'] = r['duration'] / 1000.0
            if self.time_pattern is None:
                r['time'] = r['time'] / 1000.0
        self.mode = new

    def name_of(self, nx):
        v = self.ev(nx)
        return v

    def s_action(self, s):
        verb, operands = s[1], s[2]
        only_default = len(operands) == 1 and operands[0][0] == 'default'
        self.expect_delay(optional=only_default)
        for op in operands:
            self.operand(verb, op)

    def operand(self, verb, op):
        k = op[0]
        self.stat('op:{}:{}'.format(verb, k))
        if verb in ('on', 'off'):
            on = verb == 'on'

            def chk_power(args, on=on):
                if bool(args[0]) != on:
                    self.fail('power level', on, args[0])
                self.chk_duration(args[1], 'power')
            if k == 'all':
                self.expect_lan('set_power_all_lights', chk_power)
                return
            self.expect_devs([(label, 'set_power', chk_power)
                              for label in self.targets(k, op[1])], 'power')
            return
        # set
        if k == 'default':
            self.default = self.ideal_color()
            return
        ideal = self.ideal_color()

        def chk_set(args, ideal=ideal):
            self.chk_color(args[0], ideal, 'set')
            self.chk_duration(args[1], 'set')
        if k == 'all':
            self.expect_lan('set_color_all_lights', chk_set)
        elif k in ('light', 'group', 'location'):
            self.expect_devs([(label, 'set_color', chk_set)
                              for label in self.targets(k, op[1])], 'set')
        elif k == 'zone':
            name = self.name_of(op[1])
            a = self.ev(op[2])
            b = self.ev(op[3]) if op[3] is not None else a
            if self.pop.kind(name) != 'mz':
                return

            def chk_zone(args, a=a, b=b, ideal=ideal):
                if (args[0], args[1]) != (a, b + 1):
                    self.fail('zone range', (a, b + 1), (args[0], args[1]))
                self.chk_color(args[2], ideal, 'zone')
                self.chk_duration(args[3], 'zone')
            self.expect_devs([(name, 'set_zone_color', chk_zone)], 'zone')
        elif k == 'matrix':
            name = self.name_of(op[1])
            self.matrix_begin(name)
            self.stage(op[2], op[3], op[4])
            self.matrix_end(name)
        elif k == 'mblock':
            name = self.name_of(op[1])
            self.matrix_begin(name)
            self.block(op[2])
            self.matrix_end(name)
        else:
            raise AssertionError(op)

    def targets(self, k, nx):
        name = self.name_of(nx)
        if k == 'light':
            return [name] if name in self.pop.devs else []
        table = self.pop.groups if k == 'group' else self.pop.locations
        return list(table.get(name, []))

    # matrix staging ----------------------------------------------------------
    def matrix_begin(self, name):
        if self.matrix is not None:
            raise Undecidable('nested matrix')
        d = self.pop.devs.get(name)
        if d is not None and d.get('kind') == 'matrix':
            self.matrix = {'h': d['height'], 'w': d['width'], 'cells': {}}
        else:
            self.matrix = {'h': None, 'w': None, 'cells': {}}

    def stage(self, rows, cols, order='rc'):
        m = self.matrix
        if m is None:
            raise Undecidable('stage outside a matrix block')
        if m['h'] is None:
            for rc in (rows, cols):
                if rc:
                    self.ev(rc[0])
                    if rc[1] is not None:
                        self.ev(rc[1])
            return
        # evaluation order of the range operands = order written
        def rng(rc, full):
            if rc is None:
                return 0, full - 1
            a = self.ev(rc[0])
            b = self.ev(rc[1]) if rc[1] is not None else a
            return a, b
        if order == 'cr':
            c0, c1 = rng(cols, m['w'])
            r0, r1 = rng(rows, m['h'])
        else:
            r0, r1 = rng(rows, m['h'])
            c0, c1 = rng(cols, m['w'])
        if not (0 <= r0 <= r1 < m['h'] and 0 <= c0 <= c1 < m['w']):
            raise Undecidable('matrix range outside the device')
        spec = (self.ideal_color(), self.mode)
        for r in range(r0, r1 + 1):
            for c in range(c0, c1 + 1):
                m['cells'][(r, c)] = spec
        self.stat('stage')

    def s_stage(self, s):
        self.stage(s[1], s[2], s[3])

    def matrix_end(self, name):
        m, self.matrix = self.matrix, None
        if m['h'] is None:
            return
        black = [F(0)] * 4
        default = self.default or black

        def chk_tile(args, m=m, default=default):
            payload = args[0]
            cells = payload['colors']
            n = m['h'] * m['w']
            if len(cells) < n:
                self.fail('tile cells', n, len(cells))
            if (payload.get('width'), payload.get('height')) != (m['w'], m['h']):
                self.fail('tile size', (m['w'], m['h']),
                          (payload.get('width'), payload.get('height')))
            for r in range(m['h']):
                for c in range(m['w']):
                    sent = cells[r * m['w'] + c]
                    spec = m['cells'].get((r, c))
                    ideal = spec[0] if spec else default
                    hf = bool(spec) and spec[1] == 'rgb' and (
                        ideal[1] <= 1 or ideal[2] <= 1)
                    msg = None
                    if not (isinstance(sent, (list, tuple)) and len(sent) == 4):
                        msg = 'not a colour'
                    else:
                        msg = oracle.color_ok(sent, ideal, hue_free=hf)
                    if msg:
                        self.fail('cell ({},{}) {}'.format(
                            r, c, 'staged' if spec else 'default'),
                            [round(float(x), 2) for x in ideal],
                            '{} ({})'.format(sent, msg))
            self.chk_duration(payload['duration'], 'tile')
        self.expect_devs([(name, 'SetTileState64', chk_tile)], 'matrix')

    # ------------------------------------------------------------------------
    def s_get(self, s):
        name = self.name_of(s[1])
        self.expect_delay(optional=True)
        if self.pop.kind(name) != 'plain':
            if self.pop.kind(name) is not None:
                raise Undecidable('get on a multi-colour light is undefined')
            return
        got = {}

        def chk_get(args, got=got):
            got['c'] = args[0]
        self.expect_devs([(name, 'get_color', chk_get)], 'get')
        raw = got['c']
        r = self.regs
        if self.mode == 'raw':
            r['hue'], r['saturation'], r['brightness'], r['kelvin'] = raw
        elif self.mode == 'logical':
            r['hue'] = raw[0] * 360.0 / 65535.0
            r['saturation'] = raw[1] * 100.0 / 65535.0
            r['brightness'] = raw[2] * 100.0 / 65535.0
            r['kelvin'] = raw[3]
        else:
            rgb = oracle.hsv_to_rgb_exact(
                F(raw[0], 65535) % 1 if raw[0] != 65535 else F(0),
                F(raw[1], 65535), F(raw[2], 65535))
            r['red'], r['green'], r['blue'] = [float(x * 100) for x in rgb]
            r['kelvin'] = raw[3]

    def s_wait(self, s):
        self.expect_delay()

    def s_assign(self, s):
        self.store(s[1], self.ev(s[2]))

    def s_define(self, s):
        v = s[2]
        if v[0] == 'pat':
            self.macros[s[1]] = ('pat', v[1])
        else:
            self.macros[s[1]] = self.ev(v)

    def s_routine(self, s):
        self.routines[s[1]] = (s[2], s[3])

    def hoist_routines(self, node):
        """routine definitions are compile-time: a definition nested in an
        if/repeat body defines the routine whether or not control gets there"""
        if isinstance(node, list):
            if node and node[0] == 'routine':
                self.routines[node[1]] = (node[2], node[3])
                return
            for x in node:
                self.hoist_routines(x)
        elif isinstance(node, dict):
            for x in node.values():
                self.hoist_routines(x)

    def s_call(self, s):
        self.call(s[1], [self.ev(a) for a in s[2]])

    def s_return(self, s):
        if not self.scopes:
            raise Undecidable('return outside a routine')
        raise _Return(self.ev(s[1]) if s[1] is not None else None)

    def s_if(self, s):
        c = self.ev(s[1])
        if isinstance(c, str):
            raise Undecidable('string as condition')
        if c:
            self.stat('if:true')
            self.block(s[2])
        else:
            self.stat('if:false')
            if s[3] is not None:
                self.block(s[3])

    def s_break(self, s):
        raise _Break()

    def _body(self, body):
        """returns False when the loop was left by break"""
        try:
            self.block(body)
        except _Break:
            self.stat('break')
            return False
        return True

    def _count(self, e):
        n = self.ev(e)
        if isinstance(n, bool) or not isinstance(n, int):
            raise Undecidable('non-integer loop count')
        return n

    def s_repeat(self, s):
        kind, info, body = s[1], s[2], s[3]
        if kind == 'inf':
            while True:
                self.tick()
                if not self._body(body):
                    return
        if kind == 'count':
            n = self._count(info['n'])
            self.stat('loop:n={}'.format(min(max(n, 0), 3)))
            for _ in range(n):
                if not self._body(body):
                    return
            return
        if kind == 'while':
            while True:
                self.tick()
                c = self.ev(info['cond'])
                if isinstance(c, str):
                    raise Undecidable('string as condition')
                if not c:
                    return
                if not self._body(body):
                    return
        if kind == 'range':
            a, b = self._count(info['a']), self._count(info['b'])
            step = 1 if b >= a else -1
            self.stat('loop:range' + ('+' if step > 0 else '-'))
            for v in range(a, b + step, step):
                self.store(info['var'], v)
                if not self._body(body):
                    return
            return
        if kind == 'interp':
            n = self._count(info['n'])
            a, b = self.ev(info['a']), self.ev(info['b'])
            self.stat('loop:interp n={}'.format(min(max(n, 0), 3)))
            for v in self.spread(('from', a, b), n):
                self.store(info['var'], v)
                if not self._body(body):
                    return
            return
        if kind == 'cycle':
            n = self._count(info['n'])
            st = self.ev(info['start']) if info['start'] is not None else 0
            self.stat('loop:cycle n={}'.format(min(max(n, 0), 3)))
            for v in self.spread(('cycle', st), n):
                self.store(info['var'], v)
                if not self._body(body):
                    return
            return
        # iterations over the light directory
        if kind == 'all':
            names = list(self.pop.names)
        elif kind == 'groups':
            names = sorted(self.pop.groups)
        elif kind == 'locations':
            names = sorted(self.pop.locations)
        elif kind == 'in':
            names = []
            for src in info['srcs']:
                n = self.name_of(src[1])
                if src[0] == 'light':
                    names.append(n)
                elif src[0] == 'group':
                    names.extend(self.pop.groups.get(n, []))
                else:
                    names.extend(self.pop.locations.get(n, []))
        else:
            raise AssertionError(kind)
        self.stat('loop:{} n={}'.format(kind, min(len(names), 3)))
        w = info.get('with')
        values = None
        if w is not None:
            if w[0] == 'from':
                a, b = self.ev(w[2]), self.ev(w[3])
                values = self.spread(('from', a, b), len(names))
            else:
                st = self.ev(w[2]) if w[2] is not None else 0
                values = self.spread(('cycle', st), len(names))
        for i, name in enumerate(names):
            self.store(info['lvar'], name)
            if values is not None:
                self.store(w[1], values[i])
            if not self._body(body):
                return

    def spread(self, spec, n):
        if n <= 0:
            return []
        if spec[0] == 'from':
            a, b = spec[1], spec[2]
            if n == 1:
                return [a]
            inc = (b - a) / (n - 1)
            out, v = [], a
            for _ in range(n):
                out.append(v)
                v = v + inc
            return out
        full = 65536 if self.mode == 'raw' else 360
        inc = full / n
        out, v = [], spec[1]
        for _ in range(n):
            out.append(v)
            v = v + inc
        return out

    # ---------------------------------------------------------------- output
    def s_print(self, s):
        if s[1] is not None:
            self.expect_out('out', self.ev(s[1]))

    def s_println(self, s):
        if s[1] is not None:
            self.expect_out('out', self.ev(s[1]))
        self.expect_out('newline')

    def s_printf(self, s):
        fmt = self.ev(s[1])
        args = [self.ev(a) for a in s[2]]
        text = self.format(fmt, args)
        self.expect_out('out', text)

    def format(self, fmt, args):
        fmt = fmt.replace('\\n', '\n')
        named = {}
        for _, field, _, _ in string.Formatter().parse(fmt):
            if field and not field.isdecimal():
                if field in ALL_REGS:
                    if field == 'time' and self.time_pattern is not None:
                        raise Undecidable('time pattern in printf')
                    named[field] = self.regs[field]
                elif field in self.macros:
                    named[field] = self.macros[field]
                else:
                    named[field] = self.lookup(field)
        try:
            return fmt.format(*args, **named)
        except (ValueError, IndexError, KeyError, TypeError) as ex:
            raise Undecidable('format error of the script itself: {}'.format(ex))


def check(prog, population, decisions, actual, spec_table=None, hoist=False):
    """Run the reference over `actual`.  Returns the Ref that accepted the
    log, or raises Mismatch (with .ref) / Undecidable."""
    ref = Ref(prog, population, decisions, actual, spec_table=spec_table)
    if hoist:
        ref.hoist_routines(prog)
    # the reference interpreter recurses where the VM iterates: it gets the
    # head-room for scripts that recurse a few hundred calls deep, and only
    # while it runs (the repository's own code keeps the default limit)
    limit = _sys.getrecursionlimit()
    _sys.setrecursionlimit(max(limit, 40000))
    try:
        ref.run()
    except Mismatch as ex:
        ex.ref = ref
        raise
    finally:
        _sys.setrecursionlimit(limit)
    return ref
