"""Run one script on the real compiler + loader + VM against the simulated LAN
and collect everything the monitors saw."""
from bvf import env, simnet, vmmon
from bardolph.controller.script_job import ScriptJob

vmmon.install_loader_hook()


class Run:
    __slots__ = ('accepted', 'errors', 'log', 'stops', 'thread_exc', 'range',
                 'job', 'compile_exc', 'budget_exhausted', 'mon',
                 'image_faults', 'fp_changed', 'leftovers')

    def dev_events(self, ok_only=False):
        return [e for e in self.log if e[0] in ('dev', 'lan')
                and (not ok_only or e[-1] == 'ok')]


def install_budget(job, r, budget):
    """Bounded run: every loop and every call passes through JUMP or JSR;
    after `budget` jumps (budget/20 calls) the machine is asked to stop (as a
    user could) and the run is flagged.  Infinite scripts are legal, endless
    test cases are not."""
    from bardolph.vm.vm_codes import OpCode
    machine = job._machine
    table = machine._fn_table
    state = {OpCode.JUMP: 0, OpCode.JSR: 0}
    limit = {OpCode.JUMP: budget, OpCode.JSR: max(budget // 20, 100)}
    for op in (OpCode.JUMP, OpCode.JSR):
        orig = getattr(machine, '_' + op.name.lower())

        def counted(orig=orig, op=op):
            state[op] += 1
            if state[op] > limit[op]:
                r.budget_exhausted = True
                machine.stop()
                machine._reg.pc = len(machine._program) + 1
                return
            orig()
        table[op] = counted


VIA_FILE = [False]      # set by a check: compile through a UTF-8 script file


def run_script(text, decisions=None, keep_job=False, job=None, budget=100000,
               monitor=False, mon=None, stop_at=None):
    """Compile `text` in a fresh ScriptJob (or re-run `job`) and execute it."""
    env.reset_monitors()
    if decisions is not None:
        env.DECISIONS.load(decisions)
    r = Run()
    r.compile_exc = None
    r.job = None
    r.mon = None
    r.image_faults = []
    r.fp_changed = False
    r.leftovers = []
    if job is None:
        try:
            if VIA_FILE[0]:
                # the way `lsrun file.ls` and the web server get their
                # scripts: from a (UTF-8) file
                import os
                d = os.path.join(env.VERIF, '.work')
                os.makedirs(d, exist_ok=True)
                path = os.path.join(d, 'script-{}.ls'.format(os.getpid()))
                with open(path, 'w', encoding='utf-8') as f:
                    f.write(text)
                try:
                    job = ScriptJob.from_file(path)
                finally:
                    os.unlink(path)
            else:
                job = ScriptJob.from_string(text)
        except Exception as ex:
            r.compile_exc = ex
            r.accepted, r.errors = None, ''
            r.budget_exhausted = False
            r.log, r.stops, r.thread_exc, r.range = [], [], [], []
            return r
    r.accepted = job.program is not None
    r.errors = job.compile_errors
    r.budget_exhausted = False
    if r.accepted:
        simnet.reset_log()
        before = None
        if mon is not None:            # re-run of an already monitored job
            r.mon = mon
        elif monitor:
            r.mon = vmmon.attach(job, step_limit=budget * 4)
        else:
            install_budget(job, r, budget)
        if r.mon is not None:
            r.mon.calls, r.mon.loops, r.mon.steps = [], 0, 0
            r.mon.exhausted = False
            r.mon.run_jumps = set()
            r.mon.stop_at, r.mon.stopped_at = stop_at, None
            before = vmmon.fingerprint(job.program)
        vmmon.LAST_LOAD.clear()
        job.execute()
        r.image_faults = list(vmmon.LAST_LOAD.get('faults') or [])
        if not env.MACHINE_STOPS and not r.budget_exhausted and \
                stop_at is None:
            # quiescence after a complete run (no per-instruction cost)
            m = job._machine
            n = len(m._vm_math._eval_stack._stack)
            if n:
                r.leftovers.append('{} value(s) left on the evaluation stack'
                                   .format(n))
            top = m._call_stack._top
            if top.parent is not None:
                r.leftovers.append('a frame left on the call stack')
            if m._vm_io._unnamed:
                r.leftovers.append('pending output {!r}'.format(
                    m._vm_io._unnamed[:3]))
        if r.mon is not None:
            r.budget_exhausted = r.mon.exhausted
            r.mon.finish(stopped=bool(env.MACHINE_STOPS)
                         or r.mon.stopped_at is not None)
            r.fp_changed = before != vmmon.fingerprint(job.program)
    r.log = list(simnet.LOG)
    r.stops = list(env.MACHINE_STOPS)
    r.thread_exc = list(env.THREAD_EXCEPTIONS)
    r.range = list(simnet.RANGE_VIOLATIONS)
    if keep_job:
        r.job = job
    return r
