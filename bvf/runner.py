"""Run one script on the real compiler + loader + VM against the simulated LAN
and collect everything the monitors saw."""
from bvf import env, simnet
from bardolph.controller.script_job import ScriptJob


class Run:
    __slots__ = ('accepted', 'errors', 'log', 'stops', 'thread_exc', 'range',
                 'job', 'compile_exc')

    def dev_events(self, ok_only=False):
        return [e for e in self.log if e[0] in ('dev', 'lan')
                and (not ok_only or e[-1] == 'ok')]


def run_script(text, decisions=None, keep_job=False, job=None):
    """Compile `text` in a fresh ScriptJob (or re-run `job`) and execute it."""
    env.reset_monitors()
    if decisions is not None:
        env.DECISIONS.load(decisions)
    r = Run()
    r.compile_exc = None
    r.job = None
    if job is None:
        try:
            job = ScriptJob.from_string(text)
        except Exception as ex:
            r.compile_exc = ex
            r.accepted, r.errors = None, ''
            r.log, r.stops, r.thread_exc, r.range = [], [], [], []
            return r
    r.accepted = job.program is not None
    r.errors = job.compile_errors
    if r.accepted:
        simnet.reset_log()
        job.execute()
    r.log = list(simnet.LOG)
    r.stops = list(env.MACHINE_STOPS)
    r.thread_exc = list(env.THREAD_EXCEPTIONS)
    r.range = list(simnet.RANGE_VIOLATIONS)
    if keep_job:
        r.job = job
    return r
