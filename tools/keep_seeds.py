#!/venv/bin/python
"""Copies confirmed seeds from /tmp/seed-out/<ID>/changeN into /verif/seeded/<ID>-N/
(patch.diff, demo.py, meta.json)."""
import json
import os
import shutil
import sys

SRC, DST = '/tmp/seed-out', '/verif/seeded'
props = {json.loads(l)['id']: json.loads(l) for l in open('/verif/properties.jsonl')}
os.makedirs(DST, exist_ok=True)
for pid in sorted(os.listdir(SRC)):
    d = os.path.join(SRC, pid)
    if not os.path.isdir(d):
        continue
    for ch in sorted(os.listdir(d)):
        src = os.path.join(d, ch)
        if not all(os.path.exists(os.path.join(src, f))
                   for f in ('patch.diff', 'demo.py', 'meta.txt')):
            continue
        n = ch.replace('change', '')
        dst = os.path.join(DST, '{}-{}'.format(pid, n))
        os.makedirs(dst, exist_ok=True)
        shutil.copy(os.path.join(src, 'patch.diff'), dst)
        shutil.copy(os.path.join(src, 'demo.py'), dst)
        meta_path = os.path.join(dst, 'meta.json')
        old = json.load(open(meta_path)) if os.path.exists(meta_path) else {}
        meta = {
            'property': pid,
            'title': props[pid]['title'],
            'origin': 'written by an independent sub-agent that saw only the '
                      'property text and a scratch worktree of the repository',
            'what_it_needs_to_manifest': open(os.path.join(src, 'meta.txt')).read(),
            'confirmed_by': old.get('confirmed_by', ''),
            'checks_run': old.get('checks_run', {}),
        }
        json.dump(meta, open(meta_path, 'w'), indent=1)
        print('kept', dst)
