#!/venv/bin/python
"""mkmutant.py <name> <relative file> <old text> <new text>
Writes /verif/mutants/<name>.diff (a -p1 patch against /repo's working tree)."""
import difflib
import sys

name, rel, old, new = sys.argv[1:5]
src = open('/repo/' + rel).read()
assert src.count(old) == 1, 'old text occurs {} times'.format(src.count(old))
dst = src.replace(old, new)
diff = difflib.unified_diff(src.splitlines(True), dst.splitlines(True),
                            'a/' + rel, 'b/' + rel)
open('/verif/mutants/{}.diff'.format(name), 'w').write(''.join(diff))
print('wrote', name)
