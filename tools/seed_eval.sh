#!/bin/sh
# usage: tools/seed_eval.sh <dir with patch.diff + demo.py> <PROP> [<PROP> ...]
# Confirms an independently written property-breaking change and runs checks on it:
#   1. demo passes on an unpatched scratch copy of /repo
#   2. the patch applies; the demo fails on the patched copy
#   3. the repository's test suite still gives 186 passed on the patched copy
#   4. each named check (quick tier) is run against the patched copy
# Scratch copies live under /tmp and are removed.
D="$(realpath "$1")"; shift
A="$(mktemp -d /tmp/bvf-seedA-XXXXXX)"; B="$(mktemp -d /tmp/bvf-seedB-XXXXXX)"
for T in "$A" "$B"; do rsync -a --exclude .git --exclude '*.egg-info' --exclude __pycache__ /repo/ "$T/"; done
cp "$D/demo.py" "$A/demo.py"; cp "$D/demo.py" "$B/demo.py"
if ! (cd "$B" && patch -s -p1 < "$D/patch.diff"); then echo "SEED $D: PATCH-FAILED"; rm -rf "$A" "$B"; exit 2; fi
(cd "$A" && timeout 120 /venv/bin/python demo.py >/dev/null 2>&1); RA=$?
(cd "$B" && timeout 120 /venv/bin/python demo.py >/dev/null 2>&1); RB=$?
PT="$(cd "$B" && /venv/bin/python -m pytest -q -p no:cacheprovider --timeout=900 2>&1 | tail -1)"
echo "SEED $(basename $(dirname $D))/$(basename $D): demo unpatched rc=$RA patched rc=$RB | pytest: $PT"
cd /verif
for P in "$@"; do
  OUT="$(VERIF_REPO="$B" VERIF_EVIDENCE_DIR="$B/evidence" ./check "$P" quick 2>&1)"; RC=$?
  if [ $RC -eq 1 ]; then echo "  CAUGHT by $P: [$(echo "$OUT" | grep -o 'violations=[0-9]*' | tail -1), $(echo "$OUT" | grep -c 'mechanism:') mechanism(s)] $(echo "$OUT" | grep -m1 'mechanism:' | cut -c1-260)"
  else echo "  MISSED by $P (rc=$RC): $(echo "$OUT" | tail -1 | cut -c1-200)"; fi
done
rm -rf "$A" "$B"
