#!/venv/bin/python
"""Copies seeds from /tmp/seedout9/<ID>/change<k>/ (patch.diff, demo.py,
notes.txt) into /verif/seeded/<ID>-w9-<k>/ with a meta.json."""
import json
import os
import shutil

SRC, DST = '/tmp/seedout9', '/verif/seeded'
props = {json.loads(l)['id']: json.loads(l) for l in open('/verif/properties.jsonl')}
for pid in sorted(os.listdir(SRC)):
    for k in ('1', '2'):
        src = os.path.join(SRC, pid, 'change' + k)
        if not all(os.path.exists(os.path.join(src, f))
                   for f in ('patch.diff', 'demo.py', 'notes.txt')):
            continue
        name = '{}-w9-{}'.format(pid, k)
        dst = os.path.join(DST, name)
        os.makedirs(dst, exist_ok=True)
        shutil.copy(os.path.join(src, 'patch.diff'), dst)
        shutil.copy(os.path.join(src, 'demo.py'), dst)
        meta_path = os.path.join(dst, 'meta.json')
        old = json.load(open(meta_path)) if os.path.exists(meta_path) else {}
        json.dump({
            'property': pid, 'title': props[pid]['title'],
            'origin': 'ninth wave: written by an independent sub-agent that saw '
                      'only the property text, a scratch worktree of the '
                      'repository and a short description of the seventeen earlier '
                      'changes for this property (to do something different); '
                      'asked for one scale- or size-dependent defect (right below a modest threshold, wrong beyond it) and one classic Python-idiom pitfall (mutable default, shared class attribute, late-binding closure, shallow copy, mutation during iteration, broadened or narrowed except, iterator consumed twice, reliance on iteration order)'
                      '',

            'what_it_needs_to_manifest': open(os.path.join(src, 'notes.txt')).read(),
            'confirmed_by': old.get('confirmed_by', ''),
            'checks_run': old.get('checks_run', {})},
            open(meta_path, 'w'), indent=1)
        print('kept', dst)
