#!/venv/bin/python
"""Copies seeds from /tmp/seedout10/<ID>/change<k>/ (patch.diff, demo.py,
notes.txt) into /verif/seeded/<ID>-w10-<k>/ with a meta.json."""
import json
import os
import shutil

SRC, DST = '/tmp/seedout10', '/verif/seeded'
props = {json.loads(l)['id']: json.loads(l) for l in open('/verif/properties.jsonl')}
for pid in sorted(os.listdir(SRC)):
    for k in ('1', '2'):
        src = os.path.join(SRC, pid, 'change' + k)
        if not all(os.path.exists(os.path.join(src, f))
                   for f in ('patch.diff', 'demo.py', 'notes.txt')):
            continue
        name = '{}-w10-{}'.format(pid, k)
        dst = os.path.join(DST, name)
        os.makedirs(dst, exist_ok=True)
        shutil.copy(os.path.join(src, 'patch.diff'), dst)
        shutil.copy(os.path.join(src, 'demo.py'), dst)
        meta_path = os.path.join(dst, 'meta.json')
        old = json.load(open(meta_path)) if os.path.exists(meta_path) else {}
        json.dump({
            'property': pid, 'title': props[pid]['title'],
            'origin': 'tenth (partial) wave: written by an independent sub-agent that saw '
                      'only the property text, a scratch worktree of the '
                      'repository and a short description of the nineteen earlier '
                      'changes for this property (to do something different); '
                      'asked for one interface slip between two layers (swapped arguments, a return convention changed on one side, a conversion applied once too often or not at all) and one change to error handling that shows only when a failure occurs in the middle of a sequence; written for six properties only'
                      '',

            'what_it_needs_to_manifest': open(os.path.join(src, 'notes.txt')).read(),
            'confirmed_by': old.get('confirmed_by', ''),
            'checks_run': old.get('checks_run', {})},
            open(meta_path, 'w'), indent=1)
        print('kept', dst)
