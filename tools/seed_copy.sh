#!/bin/sh
# usage: tools/seed_copy.sh <seed dir> ; prints the path of a patched scratch copy
D="$(realpath "$1")"
B="$(mktemp -d /tmp/bvf-seedC-XXXXXX)"
rsync -a --exclude .git --exclude '*.egg-info' --exclude __pycache__ /repo/ "$B/"
(cd "$B" && patch -s -p1 < "$D/patch.diff") || { rm -rf "$B"; exit 2; }
echo "$B"
