#!/venv/bin/python
"""Re-confirms every seed under /verif/seeded and runs checks against it:
the check of its own property plus any extra properties given in EXTRA.
Writes the outcome into each meta.json and a summary into seeded/RESULTS.md.
usage: tools/seed_all.py [jobs] [only-prefix]"""
import json
import os
import re
import subprocess
import sys
from concurrent.futures import ThreadPoolExecutor

ROOT = '/verif/seeded'
EXTRA = {'C01-1': ['C03'], 'C19-3': ['C17'], 'C02-2': ['C03'],
         'C03-3': ['C05'], 'C10-3': ['C01'], 'C01-w2-2': ['C12'],
         'C20-w2-1': ['C09'], 'C09-w2-1': ['C08'], 'C09-w3-2': ['C08'],
         'C07-w3-1': ['C14'], 'C06-w3-1': ['C17'], 'C16-w4-1': ['C17', 'C06'],
         'C17-w4-2': ['C06'], 'C03-w4-2': ['C02'], 'C01-w4-2': ['C02'],
         'C07-w4-1': ['C14'], 'C11-w4-2': ['C10'], 'C09-w5-1': ['C17'],
         'C01-w5-2': ['C10'], 'C11-w5-2': ['C10'], 'C02-w5-1': ['C08'],
         'C05-w5-2': ['C08'], 'C08-w5-1': ['C20'], 'C09-w5-2': ['C10'],
         'C01-w6-2': ['C02'], 'C02-w6-2': ['C04'], 'C07-w6-2': ['C18'],
         'C12-w6-2': ['C13'], 'C17-w6-2': ['C18', 'C08'], 'C05-w6-2': ['C06'],
         'C11-w6-2': ['C10'], 'C09-w6-1': ['C08'],
         'C02-w7-1': ['C17'], 'C05-w7-1': ['C17'], 'C11-w7-1': ['C17'],
         'C10-w7-2': ['C11', 'C17'], 'C06-w7-1': ['C18'],
         'C07-w7-1': ['C14'], 'C07-w7-2': ['C10', 'C01'],
         'C12-w7-2': ['C01'], 'C01-w7-1': ['C07'],
         'C01-w8-1': ['C02'], 'C03-w8-2': ['C06'], 'C10-w8-2': ['C11'],
         'C04-w8-1': ['C13'], 'C10-w8-1': ['C13'],
         'C04-w9-2': ['C08'], 'C05-w9-2': ['C17'], 'C12-w9-1': ['C01'],
         'C09-w9-1': ['C08'], 'C04-w9-1': ['C13'],
         'C05-w10-1': ['C06'], 'C12-w10-1': ['C13'], 'C18-w10-2': ['C12']}
jobs = int(sys.argv[1]) if len(sys.argv) > 1 else 3
only = sys.argv[2] if len(sys.argv) > 2 else ''


def one(name):
    d = os.path.join(ROOT, name)
    prop = name.split('-')[0]
    props = [prop] + EXTRA.get(name, [])
    meta = json.load(open(os.path.join(d, 'meta.json')))
    if meta.get('superseded'):
        return name, ('-', '-', 'superseded, see meta.json'), dict(
            meta.get('checks_run') or {})
    out = subprocess.run(['/verif/tools/seed_eval.sh', d] + props,
                         capture_output=True, text=True).stdout
    m = re.search(r'demo unpatched rc=(\d+) patched rc=(\d+) \| pytest: (.*)', out)
    meta['confirmed_by'] = ('tools/seed_eval.sh: demo exit {} on an unpatched copy '
                            'of /repo, exit {} on the patched copy; pytest on the '
                            'patched copy: {}'.format(*m.groups())) if m else out[:200]
    runs = {}
    for line in out.splitlines():
        mm = re.match(r'\s+(CAUGHT|MISSED) by (C\d+)(.*)', line)
        if mm:
            runs[mm.group(2)] = (mm.group(1) + mm.group(3))[:300]
    meta['checks_run'] = runs
    json.dump(meta, open(os.path.join(d, 'meta.json'), 'w'), indent=1)
    return name, m.groups() if m else None, runs


names = sorted(n for n in os.listdir(ROOT)
               if os.path.isdir(os.path.join(ROOT, n)) and n.startswith(only))
if only == 'TABLE':
    # rebuild RESULTS.md from what the meta.json files record
    names = sorted(n for n in os.listdir(ROOT)
                   if os.path.isdir(os.path.join(ROOT, n)))
    results = []
    for n in names:
        meta = json.load(open(os.path.join(ROOT, n, 'meta.json')))
        m = re.search(r'demo exit (\S+) on an unpatched copy.*?exit (\S+) on '
                      r'the patched copy; pytest on the patched copy: (.*)',
                      meta.get('confirmed_by', ''))
        conf = m.groups() if m else None
        if meta.get('superseded'):
            conf = ('-', '-', 'superseded, see meta.json')
        results.append((n, conf, meta.get('checks_run') or {}))
    only = ''
else:
    with ThreadPoolExecutor(jobs) as ex:
        results = list(ex.map(one, names))
lines = ['# Seeded property-breaking changes: confirmation and detection', '',
         '| seed | demo (clean / patched) | suite on patched copy | caught by | missed by |',
         '|---|---|---|---|---|']
for name, conf, runs in results:
    caught = [p for p, v in runs.items() if v.startswith('CAUGHT')]
    missed = [p for p, v in runs.items() if v.startswith('MISSED')]
    lines.append('| {} | {} | {} | {} | {} |'.format(
        name, '{} / {}'.format(conf[0], conf[1]) if conf else '?',
        conf[2][:40] if conf else '?', ' '.join(caught), ' '.join(missed)))
    print(name, conf, {p: v[:60] for p, v in runs.items()})
if not only:
    open(os.path.join(ROOT, 'RESULTS.md'), 'w').write('\n'.join(lines) + '\n')
