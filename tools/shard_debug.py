"""Run one shard of a check in-process with a faulthandler watchdog.
usage: shard_debug.py <PROP> <tier> <seed> <shard> <nshards> [seconds]"""
import faulthandler
import sys

sys.path.insert(0, '/verif')
secs = int(sys.argv[6]) if len(sys.argv) > 6 else 30
faulthandler.dump_traceback_later(secs, exit=True)
from bvf import harness  # noqa: E402

harness.worker_main(sys.argv[1:6] + ['/tmp/shard_debug.json'])
print(open('/tmp/shard_debug.json').read()[:3000])
