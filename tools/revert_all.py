#!/venv/bin/python
"""Reverts every `fix:` commit of /repo (one at a time, on a scratch copy) and
runs the quick check of the property the fix is recorded under in
known_findings.json: the check must fire.  usage: tools/revert_all.py [jobs]"""
import json
import os
import re
import subprocess
import sys
from concurrent.futures import ThreadPoolExecutor

jobs = int(sys.argv[1]) if len(sys.argv) > 1 else 3
fixed = json.load(open('/verif/known_findings.json'))['fixed']
todo = []
for line in fixed:
    m = re.match(r'fixed: property=(C\d+) ([0-9a-f]{7})', line)
    p = '/verif/mutants/revert/fix_{}.diff'.format(m.group(2)) if m else None
    if p and os.path.exists(p):
        todo.append((m.group(1), p))


def one(item):
    prop, patch = item
    out = subprocess.run(['/verif/tools/mutant_test.sh', '-R', patch, prop],
                         capture_output=True, text=True).stdout
    return prop, os.path.basename(patch), out.splitlines()[0] if out else '?'


with ThreadPoolExecutor(jobs) as ex:
    for prop, name, first in ex.map(one, todo):
        print(prop, name, first[:100])
