#!/venv/bin/python
"""Copies seeds from /tmp/seedout/<ID>-w2-<n>/ (patch.diff, demo.py, notes.txt)
into /verif/seeded/<ID>-w2-<n>/ with a meta.json."""
import json
import os
import shutil

SRC, DST = '/tmp/seedout', '/verif/seeded'
props = {json.loads(l)['id']: json.loads(l) for l in open('/verif/properties.jsonl')}
for name in sorted(os.listdir(SRC)):
    src = os.path.join(SRC, name)
    if not os.path.isdir(src) or not all(
            os.path.exists(os.path.join(src, f))
            for f in ('patch.diff', 'demo.py', 'notes.txt')):
        continue
    pid = name.split('-')[0]
    dst = os.path.join(DST, name)
    os.makedirs(dst, exist_ok=True)
    shutil.copy(os.path.join(src, 'patch.diff'), dst)
    shutil.copy(os.path.join(src, 'demo.py'), dst)
    meta_path = os.path.join(dst, 'meta.json')
    old = json.load(open(meta_path)) if os.path.exists(meta_path) else {}
    json.dump({
        'property': pid, 'title': props[pid]['title'],
        'origin': 'second wave: written by an independent sub-agent that saw '
                  'only the property text, a scratch worktree of the repository '
                  'and a one-line description of the first-wave mutations (to '
                  'avoid repeating them); asked for changes that need something '
                  'specific to manifest, preferably two cooperating sites or '
                  'state carried from one step to a later one',
        'what_it_needs_to_manifest': open(os.path.join(src, 'notes.txt')).read(),
        'confirmed_by': old.get('confirmed_by', ''),
        'checks_run': old.get('checks_run', {})}, open(meta_path, 'w'), indent=1)
    print('kept', dst)
