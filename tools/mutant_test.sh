#!/bin/sh
# usage: tools/mutant_test.sh [-R] <patch.diff> <PROP> [<PROP> ...]
# Copies /repo (working tree) to a scratch directory outside /repo and /verif,
# applies the patch (-R: in reverse, e.g. to undo a fix: commit), runs the
# quick check of each property against the copy and reports which ones fire.
# The scratch copy is removed afterwards.
REV=""
if [ "$1" = "-R" ]; then REV="-R"; shift; fi
PATCH="$(realpath "$1")"; shift
TMP="$(mktemp -d /tmp/bvf-mut-XXXXXX)"
rsync -a --exclude .git --exclude '*.egg-info' --exclude __pycache__ /repo/ "$TMP/"
if ! (cd "$TMP" && patch -s -p1 $REV < "$PATCH"); then
  echo "PATCH-FAILED $PATCH"; rm -rf "$TMP"; exit 2
fi
cd /verif
RESULT=0
for P in "$@"; do
  OUT="$(VERIF_REPO="$TMP" VERIF_EVIDENCE_DIR="$TMP/evidence" ./check "$P" quick 2>&1)"
  RC=$?
  MECH="$(echo "$OUT" | grep -m3 'mechanism:' | cut -c1-220)"
  if [ $RC -eq 1 ]; then echo "CAUGHT   $P  $(basename "$PATCH")"; echo "$MECH"
  else echo "MISSED   $P  rc=$RC $(basename "$PATCH")"; echo "$OUT" | tail -2 | cut -c1-300; RESULT=1; fi
done
rm -rf "$TMP"
exit $RESULT
