#!/venv/bin/python
"""Regenerates MANIFEST.json from the property modules that exist.
(Convenience for the author; MANIFEST.json itself is what is committed.)"""
import json
import os
import sys

HERE = os.path.dirname(os.path.abspath(__file__))
sys.path.insert(0, HERE)

META = {
    # id: (category, technique, level text, level note, design ref)
}


def load_meta():
    import importlib
    out = {}
    for i in range(1, 21):
        pid = 'C{:02d}'.format(i)
        path = os.path.join(HERE, 'bvf', 'props', pid.lower() + '.py')
        if not os.path.exists(path):
            continue
        src = open(path).read()
        ns = {}
        # META block is a literal dict assigned to MANIFEST in the module
        start = src.find('\nMANIFEST = {')
        if start < 0:
            continue
        end = src.find('\n}\n', start)
        exec(src[start:end + 3], ns)
        out[pid] = ns['MANIFEST']
    return out


def main():
    metas = load_meta()
    props = [json.loads(l) for l in open(os.path.join(HERE, 'properties.jsonl'))]
    checks = []
    na = []
    for p in props:
        pid = p['id']
        m = metas.get(pid)
        if m is None:
            na.append({'property_id': pid,
                       'reason': 'check not built yet (runtime monitor planned, '
                                 'see DESIGN.md section 3); not claimed'})
            continue
        checks.append({
            'property_id': pid,
            'quick_cmd': './check {} quick'.format(pid),
            'thorough_cmd': './check {} thorough'.format(pid),
            'evidence_file': 'evidence/{}.json'.format(pid),
            'replay_cmd_template': './check {} --replay {{path}}'.format(pid),
            'engine': m.get('engine', 'bvf'),
            'level_claimed': {
                'category': m['category'],
                'text': m['text'],
                'design_ref': m.get('design_ref', 'DESIGN.md section 3, ' + pid),
            },
            'level_note': m['note'],
            'technique': m['technique'],
        })
    manifest = {
        'version': 1,
        'setup_cmd': './setup.sh',
        'hooks': {
            'guard': 'AL_FONTES_JR_BARDOLPH_VERIF',
            'enable': 'no source hooks: all instrumentation is attached from '
                      'outside the repository (sys.monitoring, replacement of '
                      'module-level names, dependency-injection bindings); the '
                      'checks set AL_FONTES_JR_BARDOLPH_VERIF=1 for form only',
            'baseline_off_cmd': './run_baseline.sh',
            'source_commits': [],
            'add_only': True,
        },
        'engines': [
            {'name': 'bvf', 'path': 'bvf/',
             'serves_properties': [c['property_id'] for c in checks],
             'kind_free_text': 'runtime monitors over the real code: simulated '
             'LIFX LAN at the lifxlan API boundary, recording clock/output, '
             'reference interpreter, VM step monitor, controlled scheduler '
             'with virtual time, fault plans, icontract invariants'},
        ],
        'checks': checks,
        'not_applicable': na,
        'notes': 'Runtime monitoring only. Verdicts are "held on the executions '
                 'produced"; exit 3 + INCONCLUSIVE when a deciding monitor '
                 'observed nothing. See DESIGN.md.',
    }
    with open(os.path.join(HERE, 'MANIFEST.json'), 'w') as f:
        json.dump(manifest, f, indent=1)
        f.write('\n')
    print('claimed', [c['property_id'] for c in checks])


if __name__ == '__main__':
    main()
