import warnings; warnings.simplefilter('ignore')
import sys, logging; sys.path.insert(0,'/repo')
import lifxlan
from lifxlan.errors import WorkflowException
from lifxlan.msgtypes import GetDeviceChain, StateDeviceChain, SetTileState64, GetTileState64, StateTileState64
from bardolph.controller import lifx_lan_api, light_set, i_controller
from bardolph.lib import injection, settings, i_lib, object_list_output
from bardolph.fakes import fake_clock
from bardolph.runtime import runtime_module
from bardolph.controller.script_job import ScriptJob
import types
LOG=[]
class Dev:
    def __init__(s, label, group, loc, kind='plain', zones=0, h=0, w=0, fail=None):
        s.label, s.group, s.loc, s.kind = label, group, loc, kind
        s.color=[1,2,3,4]; s.power=0; s.zones=[[0,0,0,0] for _ in range(zones)]; s.h,s.w=h,w
        s.tiles=[[0,0,0,0] for _ in range(h*w)]; s.fail=fail or {}
    def _req(s, m, *a):
        k=s.fail.get(m,0)
        if k>0:
            s.fail[m]=k-1; LOG.append((s.label,m,a,'FAIL')); raise WorkflowException('no answer '+m)
        LOG.append((s.label,m,a,'ok'))
    def get_label(s): s._req('get_label'); return s.label
    def get_group(s): s._req('get_group'); return s.group
    def get_location(s): s._req('get_location'); return s.loc
    def get_product_features(s): return {'multizone': s.kind=='mz', 'matrix': s.kind=='matrix'}
    def get_product_name(s): return 'sim'
    def get_color(s): s._req('get_color'); return list(s.color)
    def set_color(s,c,d,rapid=False): s._req('set_color',c,d,rapid); s.color=list(c)
    def get_power(s): s._req('get_power'); return s.power
    def set_power(s,p,d,rapid=False): s._req('set_power',p,d,rapid); s.power=65535 if p else 0
    def get_color_zones(s,a=None,b=None): s._req('get_color_zones',a,b); return [list(z) for z in s.zones]
    def set_zone_color(s,a,b,c,d,rapid=False,apply=1):
        s._req('set_zone_color',a,b,c,d)
        for i in range(a,b): s.zones[i]=list(c)
    def req_with_resp(s, mt, rt, payload=None):
        s._req('req:'+mt.__name__)
        if mt is GetDeviceChain:
            return types.SimpleNamespace(start_index=0, tile_devices=[{'width':s.w,'height':s.h}])
        return types.SimpleNamespace(colors=[list(c) for c in s.tiles])
    def fire_and_forget(s, mt, payload, num_repeats=1):
        s._req('ff:'+mt.__name__, payload); s.tiles=[list(c) for c in payload['colors']]
class SimLan:
    devices=[]
    def __init__(s, n=None, verbose=False): pass
    def get_lights(s): LOG.append(('*','get_lights',(), 'ok')); return list(SimLan.devices)
    def set_color_all_lights(s,c,d,rapid=False): LOG.append(('*','set_color_all',(c,d,rapid),'ok'))
    def set_power_all_lights(s,p,d,rapid=False): LOG.append(('*','set_power_all',(p,d,rapid),'ok'))
lifx_lan_api.lifxlan.LifxLAN = SimLan

def configure(devs):
    SimLan.devices=devs
    injection.configure()
    settings.using({'single_light_discover':True,'log_level':logging.ERROR,'log_to_console':True,'default_num_lights':None}).configure()
    fake_clock.configure(); lifx_lan_api.configure(); light_set.configure()
    object_list_output.configure(); runtime_module.configure()
devs=[Dev('Top','Pole','Home'),Dev('Mid','Pole','Home'),Dev('Strip','F','Home','mz',zones=8),Dev('Candle','F','Home','matrix',h=6,w=5)]
configure(devs)
LOG.clear()
job=ScriptJob.from_string('hue 120.4 saturation 50 brightness 25 kelvin 2700 duration 1.5 set group "Pole" on all set "Strip" zone 2 4 set "Candle" row 1 column 1 2 off location "Home"')
job.execute()
for e in LOG: print(str(e)[:230])
print('--- faults')
LOG.clear(); devs[0].fail={'set_color':5}
ScriptJob.from_string('hue 1 set group "Pole"').execute()
for e in LOG: print(e)
print('--- discovery w/ silent mz')
devs[2].fail={'get_color_zones':9}
ls=light_set.LightSet()
try: print('discover ->', ls.discover())
except Exception as ex: print('RAISED', type(ex).__name__, ex)
