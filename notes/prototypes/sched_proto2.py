import sched_proto as sp
from bardolph.lib import job_control
class NoLock:
    def acquire(self,*a,**k): return True
    def release(self): sp.S.switch('unlock')
sp.shim.RLock = NoLock
bad=0; dup=0; lost=0
for seed in range(300):
    l,n,h=sp.run(seed)
    active=None; starts={}
    for ev,n_ in l:
        if ev=='start':
            starts[n_]=starts.get(n_,0)+1
            if active is not None: bad+=1
            active=n_
        else: active=None
    if any(v>1 for v in starts.values()): dup+=1
    if len(starts)<4 or h: lost+=1
print('nolock: overlap',bad,'dup',dup,'lost/hasjobs',lost)
