import warnings; warnings.simplefilter('ignore')
import sys, random, logging, operator
sys.path.insert(0,'/repo')
from tests import test_module
from bardolph.controller.script_job import ScriptJob
test_module.configure()
logging.disable(logging.CRITICAL)
PREC={'or':1,'and':2,'<':3,'<=':3,'>':3,'>=':3,'==':3,'!=':3,'+':4,'-':4,'*':5,'/':5,'%':5,'^':6}
RIGHT={'^'}
OPS={'+':operator.add,'-':operator.sub,'*':operator.mul,'/':operator.truediv,'%':operator.mod,'^':operator.pow,
     '<':operator.lt,'<=':operator.le,'>':operator.gt,'>=':operator.ge,'==':operator.eq,'!=':operator.ne,
     'and':lambda a,b: bool(a) and bool(b),'or':lambda a,b: bool(a) or bool(b)}
def gen(r, d):
    if d==0 or r.random()<0.25:
        return ('num', r.choice([0,1,2,3,4,5,7,2.5,0.5,10]))
    k=r.random()
    if k<0.12: return ('neg', gen(r,d-1))
    op=r.choice(list(PREC))
    return ('bin', op, gen(r,d-1), gen(r,d-1))
def ev(t):
    if t[0]=='num': return t[1]
    if t[0]=='neg': return -1*ev(t[1])
    a,b=ev(t[2]),ev(t[3])
    if t[1]=='^':
        if not(isinstance(b,int) and 0<=b<=4) or abs(a)>50: raise ValueError
    if t[1] in '/%' and b==0: raise ZeroDivisionError
    return OPS[t[1]](a,b)
def render(t, r, redundant=False):
    if t[0]=='num': return str(t[1])
    if t[0]=='neg':
        inner=render(t[1],r,redundant)
        if t[1][0]=='bin' or redundant and r.random()<0.5: inner='('+inner+')'
        return '-'+inner
    op=t[1]; p=PREC[op]
    def side(x, is_right):
        txt=render(x,r,redundant)
        need=False
        if x[0]=='bin':
            q=PREC[x[1]]
            if q<p: need=True
            elif q==p:
                need = (is_right and op not in RIGHT) or ((not is_right) and op in RIGHT)
        if need or (redundant and r.random()<0.3): txt='('+txt+')'
        return txt
    sp=r.choice([' ',' ','  '])
    return side(t[2],False)+sp+op+sp+side(t[3],True)
r=random.Random(5); n=0; bad=[]; skipped=0
from bardolph.lib.injection import provide
from bardolph.lib import i_lib
while n<4000:
    t=gen(r,5)
    try: exp=ev(t)
    except (ZeroDivisionError, ValueError, OverflowError, TypeError): skipped+=1; continue
    if isinstance(exp, complex): continue
    txt=render(t,r,r.random()<0.3)
    out=test_module.replace_print()
    job=ScriptJob.from_string('print {'+txt+'}')
    if job.program is None: bad.append(('COMPILE',txt,job.compile_errors)); n+=1; continue
    job.execute(); got=out.get_objects()
    n+=1
    ok = len(got)==1 and (got[0]==exp or (isinstance(exp,float) and abs(got[0]-exp)<=1e-9*max(1,abs(exp))))
    if not ok: bad.append((txt,exp,got))
print('cases',n,'skipped',skipped,'bad',len(bad)); print(bad[:6])
