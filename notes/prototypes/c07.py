import warnings; warnings.simplefilter('ignore')
import sys; sys.path.insert(0,'/repo')
from bardolph.controller import units
from bardolph.lib.param_helper import param_color
bad=0; ex=[]
for v in range(65536):
    raw=[v,v,v,2700]
    lg=units.raw_to_logical(raw)
    back=param_color(units.logical_to_raw(lg))
    for i in range(3):
        a,b=raw[i],back[i]
        ok = a==b or (i==0 and {a,b}=={0,65535})
        if not ok:
            bad+=1
            if len(ex)<5: ex.append((v,i,lg[i],back[i]))
print('raw->logical->raw mismatches',bad,ex)
# rgb round trip
bad=0; ex=[]
import random
r=random.Random(1)
for _ in range(200000):
    raw=[r.randrange(65536),r.randrange(65536),r.randrange(65536),2700]
    rgb=units.raw_to_rgb(raw); back=units.rgb_to_raw(rgb)
    h,s,b=raw[:3]
    d=[abs(back[i]-raw[i]) for i in range(3)]
    d[0]=min(d[0],65535-d[0])
    if b==0 or s==0: d[0]=0
    if b==0: d[1]=0
    if max(d)>1:
        bad+=1
        if len(ex)<5: ex.append((raw,rgb,back))
print('raw->rgb->raw >1 mismatches',bad,ex)
