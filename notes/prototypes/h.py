import sys, io, logging, contextlib
import os; sys.path.insert(0, os.environ.get('R','/repo'))
from tests import test_module
from bardolph.controller import i_controller
from bardolph.controller.script_job import ScriptJob
from bardolph.lib.injection import provide
from bardolph.parser.parse import Parser
from bardolph.vm.instruction import Instruction

def run(src, small=False, show=True, listing=False):
    test_module.configure(small)
    out = test_module.replace_print()
    p = Parser()
    ok = p.parse(src)
    if not ok:
        print("COMPILE FAIL:", repr(p.get_errors()))
        return None
    if listing:
        print(Instruction.do_listing(p.get_program()))
    job = ScriptJob.from_string(src)
    logging.getLogger().setLevel(logging.WARNING)
    job.execute()
    api = provide(i_controller.LightApi)
    if show:
        print("OUT:", out.get_objects())
        for c in api.get_call_list(): print("  API", c)
        for l in api.get_lights():
            for c in l.get_call_list(): print("  ", l.get_name(), c)
    return out.get_objects()

if __name__ == '__main__':
    run(sys.argv[1], listing=len(sys.argv)>2)
