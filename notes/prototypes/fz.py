import warnings; warnings.simplefilter('ignore')
import sys, random, traceback, collections, signal
sys.path.insert(0,'/repo')
from tests import test_module
from bardolph.parser.parse import Parser
test_module.configure()
vocab = '''all and as assign at begin break breakpoint column cycle default define else end from get group if in location logical not null off on or print printf println pause raw row repeat return rgb set stage to units while with wait zone
hue saturation brightness kelvin red green blue duration time H S B K
x y z f g "Top" "a b" "{} {}" "{x}" 1 2.5 0 -1 8:00 *:30 1*:*5 25:00 { } [ ] ( ) + - * / % ^ < <= > >= == != # : eof number name mark error unknown compare register literal_string time_pattern syntax_error , . $ @ ! " '''.split()
valid = [
 'define f with a b begin hue a return {a+b} end assign x [f 1 2] print x',
 'repeat 3 with i from 1 to 5 begin hue i set all end',
 'repeat all as l with b from 1 to 10 begin brightness b set l end',
 'if {x > 1} begin on all end else off all',
 'set "Candle" begin hue 1 stage row 1 2 column 3 end',
 'time at 8:00 or *:30 on all',
 'printf "{} {x}" 1',
 'repeat while {x < 3} begin assign x {x+1} if {x==2} break end',
 'set "Strip" zone 1 5 and "Top" and group "Pole"',
 'units raw hue 100 set location "Home" get "Top"',
]
class TO(Exception): pass
def alarm(*a): raise TO()
signal.signal(signal.SIGALRM, alarm)
rng = random.Random(int(sys.argv[1]) if len(sys.argv)>1 else 0)
N = int(sys.argv[2]) if len(sys.argv)>2 else 20000
kinds = collections.Counter(); ex = {}
for i in range(N):
    m = rng.random()
    if m < 0.4:
        toks = [rng.choice(vocab) for _ in range(rng.randint(1,12))]
    else:
        toks = rng.choice(valid).split()
        for _ in range(rng.randint(1,3)):
            op = rng.randint(0,4)
            if not toks: break
            j = rng.randrange(len(toks))
            if op==0: del toks[j]
            elif op==1: toks.insert(j, toks[j])
            elif op==2:
                k = rng.randrange(len(toks)); toks[j],toks[k]=toks[k],toks[j]
            elif op==3: toks = toks[:j]
            else: toks.insert(j, rng.choice(vocab))
    src = ' '.join(toks)
    p = Parser()
    signal.alarm(2)
    try:
        r = p.parse(src)
        signal.alarm(0)
        if r is not True and r is not False:
            key = 'nonbool:%r'%(r,)
        elif r is False and 'Line' not in p.get_errors():
            key = 'silent-false'
        else: continue
    except TO:
        key='TIMEOUT'
    except Exception as e:
        signal.alarm(0)
        tb = traceback.extract_tb(e.__traceback__)[-1]
        key = '%s@%s:%s'%(type(e).__name__, tb.filename.split('/')[-1], tb.lineno)
    kinds[key]+=1; ex.setdefault(key, src)
for k,v in kinds.most_common(): print(v, k, '|', ex[k])
