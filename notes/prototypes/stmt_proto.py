"""Throw-away differential: random control-flow/routine/loop programs (prints only)
against a tiny reference interpreter.  Usage: R=<repo> python stmt_proto.py [seed] [n]"""
import warnings; warnings.simplefilter('ignore')
import sys, os, random, logging, collections
sys.path.insert(0, os.environ.get('R', '/repo'))
from tests import test_module
from bardolph.controller.script_job import ScriptJob
test_module.configure(); logging.disable(logging.CRITICAL)

class Ret(Exception):
    def __init__(s, v): s.v = v
class Brk(Exception): pass

class Gen:
    def __init__(s, r):
        s.r = r; s.routines = []   # (name, params, body, returns)
        s.nvar = 0; s.mark = 0; s.loopvars = set()
    def newvar(s): s.nvar += 1; return 'v%d' % s.nvar
    def marker(s): s.mark += 1; return s.mark
    def expr(s, vars_, depth=2):
        r = s.r
        if depth == 0 or r.random() < 0.4:
            if vars_ and r.random() < 0.6: return ('var', r.choice(vars_))
            return ('num', r.randint(0, 5))
        k = r.random()
        fns = [f for f in s.routines if f[3]]
        if fns and k < 0.2:
            f = r.choice(fns)
            return ('call', f[0], [s.expr(vars_, depth-1) for _ in f[1]])
        op = r.choice(['+', '-', '*', '<', '>', '==', 'and', 'or'])
        return ('bin', op, s.expr(vars_, depth-1), s.expr(vars_, depth-1))
    def block(s, vars_, depth, in_loop, in_routine, n=None):
        out = []
        vars_ = list(vars_)
        for _ in range(n or s.r.randint(1, 4)):
            st = s.stmt(vars_, depth, in_loop, in_routine)
            out.append(st)
            if st[0] == 'assign' and st[1] not in vars_: vars_.append(st[1])
        return out
    def stmt(s, vars_, depth, in_loop, in_routine):
        r = s.r; k = r.random()
        if depth <= 0 or k < 0.25: return ('print', s.marker(), s.expr(vars_, 1))
        if k < 0.45:
            cand = [v for v in vars_ if v not in s.loopvars]
            tgt = r.choice(cand) if cand and r.random() < 0.6 else s.newvar()
            return ('assign', tgt, s.expr(vars_))
        if k < 0.6:
            return ('if', s.expr(vars_), s.block(vars_, depth-1, in_loop, in_routine),
                    s.block(vars_, depth-1, in_loop, in_routine) if r.random() < 0.6 else None)
        if k < 0.72:
            return ('repeat', ('num', r.randint(0, 3)), s.block(vars_, depth-1, True, in_routine))
        if k < 0.8:
            v = s.newvar()
            a, b = r.randint(0, 3), r.randint(0, 3)
            s.loopvars.add(v)
            body = s.block(vars_ + [v], depth-1, True, in_routine)
            return ('with', v, a, b, body)
        if k < 0.86 and in_loop: return ('break',)
        if k < 0.92 and in_routine:
            return ('return', s.expr(vars_, 1) if in_routine == 'fn' else None)
        if s.routines:
            f = r.choice(s.routines)
            return ('callstmt', f[0], [s.expr(vars_, 1) for _ in f[1]])
        return ('print', s.marker(), s.expr(vars_, 1))
    def program(s):
        r = s.r; top = []; gvars = []
        for _ in range(r.randint(2, 6)):
            if r.random() < 0.35 and len(s.routines) < 3:
                name = 'r%d' % len(s.routines)
                pool = gvars + ['p', 'q']
                params = r.sample(pool, r.randint(0, min(2, len(pool))))
                returns = r.random() < 0.5
                body = s.block(list(set(params + gvars)), 2, False, 'fn' if returns else 'proc')
                if returns: body.append(('return', s.expr(list(set(params+gvars)), 1)))
                s.routines.append((name, params, body, returns))
                top.append(('define', name))
            else:
                st = s.stmt(gvars, 3, False, False)
                top.append(st)
                if st[0] == 'assign' and st[1] not in gvars: gvars.append(st[1])
                # variables first assigned inside nested blocks at top level are global too
                for v in assigned(st):
                    if v not in gvars: gvars.append(v)
        return top

def assigned(st):
    out = []
    if st[0] == 'assign': out.append(st[1])
    elif st[0] == 'if':
        for b in (st[2], st[3] or []):
            for x in b: out += assigned(x)
    elif st[0] == 'repeat':
        for x in st[2]: out += assigned(x)
    elif st[0] == 'with':
        for x in st[4]: out += assigned(x)
    return out

def rexpr(e):
    if e[0] == 'num': return str(e[1])
    if e[0] == 'var': return e[1]
    if e[0] == 'call': return '[' + ' '.join([e[1]] + ['{' + rexpr(a) + '}' for a in e[2]]) + ']'
    return '(' + rexpr(e[2]) + ' ' + e[1] + ' ' + rexpr(e[3]) + ')'
def rblock(b, ind): return 'begin\n' + ''.join(rstmt(x, ind+1) for x in b) + '  '*ind + 'end\n'
def rstmt(st, ind=0):
    p = '  '*ind
    if st[0] == 'print': return p + 'print %d print {%s}\n' % (st[1], rexpr(st[2]))
    if st[0] == 'assign': return p + 'assign %s {%s}\n' % (st[1], rexpr(st[2]))
    if st[0] == 'if':
        t = p + 'if {%s} ' % rexpr(st[1]) + rblock(st[2], ind)
        if st[3] is not None: t += p + 'else ' + rblock(st[3], ind)
        return t
    if st[0] == 'repeat': return p + 'repeat %s ' % rexpr(st[1]) + rblock(st[2], ind)
    if st[0] == 'with': return p + 'repeat with %s from %d to %d ' % (st[1], st[2], st[3]) + rblock(st[4], ind)
    if st[0] == 'break': return p + 'break\n'
    if st[0] == 'return': return p + ('return {%s}\n' % rexpr(st[1]) if st[1] is not None else 'return\n')
    if st[0] == 'callstmt': return p + ' '.join([st[1]] + ['{' + rexpr(a) + '}' for a in st[2]]) + '\n'
    raise ValueError(st)

class Ref:
    def __init__(s, routines): s.rt = {f[0]: f for f in routines}; s.g = {}; s.out = []; s.steps = 0
    def ev(s, e, sc):
        if e[0] == 'num': return e[1]
        if e[0] == 'var':
            if sc is not None and e[1] in sc: return sc[e[1]]
            return s.g[e[1]]
        if e[0] == 'call': return s.call(e[1], [s.ev(a, sc) for a in e[2]])
        a, b = s.ev(e[2], sc), s.ev(e[3], sc)
        return {'+': lambda: a+b, '-': lambda: a-b, '*': lambda: a*b, '<': lambda: a < b, '>': lambda: a > b,
                '==': lambda: a == b, 'and': lambda: bool(a) and bool(b), 'or': lambda: bool(a) or bool(b)}[e[1]]()
    def call(s, name, args):
        f = s.rt[name]; sc = dict(zip(f[1], args))
        try: s.run(f[2], sc)
        except Ret as r: return r.v
        return None
    def put(s, name, v, sc):
        if sc is not None and name in sc: sc[name] = v
        elif sc is None or name in s.g: s.g[name] = v
        else: sc[name] = v
    def run(s, block, sc):
        for st in block:
            s.steps += 1
            if s.steps > 5000: raise RuntimeError('budget')
            k = st[0]
            if k == 'print':
                s.out.append(st[1]); s.out.append(s.ev(st[2], sc))
            elif k == 'assign': s.put(st[1], s.ev(st[2], sc), sc)
            elif k == 'if':
                if s.ev(st[1], sc): s.run(st[2], sc)
                elif st[3] is not None: s.run(st[3], sc)
            elif k == 'repeat':
                try:
                    for _ in range(s.ev(st[1], sc)): s.run(st[2], sc)
                except Brk: pass
            elif k == 'with':
                a, b = st[2], st[3]; step = 1 if b >= a else -1
                try:
                    v = a
                    for _ in range(abs(b-a)+1):
                        s.put(st[1], v, sc); s.run(st[4], sc)
                        # loop variable is advanced from its *current* value (read back)
                        cur = sc[st[1]] if (sc is not None and st[1] in sc) else s.g[st[1]]
                        v = cur + step
                except Brk: pass
            elif k == 'break': raise Brk()
            elif k == 'return': raise Ret(s.ev(st[1], sc) if st[1] is not None else None)
            elif k == 'callstmt': s.call(st[1], [s.ev(a, sc) for a in st[2]])
            elif k == 'define': pass

def render(top, routines):
    out = ''
    it = iter(routines)
    for st in top:
        if st[0] == 'define':
            f = next(it)
            out += 'define %s %s' % (f[0], ('with ' + ' '.join(f[1]) + ' ') if f[1] else '') + rblock(f[2], 0)
        else: out += rstmt(st)
    return out

if __name__ == '__main__':
    seed0 = int(sys.argv[1]) if len(sys.argv) > 1 else 0
    n = int(sys.argv[2]) if len(sys.argv) > 2 else 2000
    kinds = collections.Counter(); ex = {}; done = 0
    for i in range(n):
        r = random.Random(seed0*100000 + i)
        g = Gen(r); top = g.program(); src = render(top, g.routines)
        ref = Ref(g.routines)
        try: ref.run(top, None)
        except (RuntimeError, KeyError, TypeError, RecursionError): continue
        out = test_module.replace_print()
        job = ScriptJob.from_string(src)
        done += 1
        if job.program is None:
            key = 'COMPILE: ' + job.compile_errors.strip().split(':', 1)[-1][:40]
        else:
            job.execute(); got = out.get_objects()
            if got == ref.out: continue
            feats = [f for f, t in (('ret-in-loop', 'return'), ('break', 'break')) if t in src]
            key = 'DIFF ' + ','.join(feats)
        kinds[key] += 1
        if key not in ex or len(src) < len(ex[key][0]): ex[key] = (src, ref.out, None if job.program is None else got)
    print('programs', done)
    for k, v in kinds.most_common(): print(v, k)
    for k, (src, e, g_) in ex.items():
        print('-----', k); print(src); print('expected', e); print('got     ', g_)
