import warnings; warnings.simplefilter('ignore')
import sys, logging, collections
import sched_proto as sp, sched_proto3 as p3
from bardolph.lib import clock, injection, job_control
from bardolph.controller import script_job

# instrument ShimEvent to record waiters at set() and wait entries
EV=[]
class MonEvent(sp.ShimEvent):
    def __init__(s): super().__init__(); s.waiters=set()
    def set(s):
        EV.append(('fire', sp.S.vnow, frozenset(s.waiters))); super().set()
    def wait(s, timeout=None):
        me=sp.S.me().name
        EV.append(('wait', sp.S.vnow, me))
        s.waiters.add(me)
        try: return super().wait(timeout)
        finally: s.waiters.discard(me)
sp.shim.Event = MonEvent

def scenario(seed, delays, mutate=False):
    EV.clear()
    sp.S = sp.Sched(seed); sp.S.register_current('main')
    p3.configure(); logging.disable(logging.CRITICAL)
    src = ' '.join('time %s on all' % d for d in delays)
    job = script_job.ScriptJob.from_string(src)
    clk = job._machine._clock
    orig_pf, orig_reset = clk.pause_for, clk.reset
    def pf(d):
        EV.append(('pf_enter', sp.S.vnow, d)); r = orig_pf(d); EV.append(('pf_exit', sp.S.vnow, d)); return r
    def rs():
        r = orig_reset(); EV.append(('reset', sp.S.vnow)); return r
    if mutate:
        def pf_mut(d):
            EV.append(('pf_enter', sp.S.vnow, d))
            clk._cue_time = clk.et() + d           # relative timing mutant
            while clk.et() < clk._cue_time:
                if not clk.wait(): break
            EV.append(('pf_exit', sp.S.vnow, d))
        clk.pause_for = pf_mut
    else:
        clk.pause_for = pf
    clk.reset = rs
    jc = job_control.JobControl(); agent = jc.add_job(job)
    n=0
    while agent.is_running() and n < 200000:
        sp.S.switch('main'); n+=1
    return list(EV), n

def check(ev):
    origin=None; due=None; viol=[]; inpf=False; qualified=False; entered_late=False
    for e in ev:
        if e[0]=='reset': origin=e[1]; due=origin
        elif e[0]=='pf_enter':
            due += e[2]; inpf=True; qualified=False; entered_late = e[1] >= due
        elif e[0]=='pf_exit':
            if e[1] < due - 1e-9: viol.append(('E1 early', e, due))
            inpf=False
        elif e[0]=='fire' and inpf:
            if e[1] >= due - 1e-12 and 'Agent._execute_and_call' in e[2]: qualified=True
        elif e[0]=='wait' and inpf and e[2]=='Agent._execute_and_call':
            if qualified: viol.append(('E2 waited again after qualifying tick', e, due))
            if entered_late: viol.append(('E3 waited though behind schedule', e, due))
    return viol

if __name__=='__main__':
    import random
    for mut in (False, True):
        tot=0; bad=0; first=None; late=0
        for seed in range(200):
            r=random.Random(seed)
            delays=[r.choice([0,0.001,0.05,0.1,0.35,0.35,1.0]) for _ in range(r.randint(1,5))]
            ev,n=scenario(seed, delays, mut)
            v=check(ev); tot+=1
            late += sum(1 for e in ev if e[0]=='pf_enter')
            if v:
                bad+=1
                if first is None: first=(seed,delays,v[:2])
        print('mutant' if mut else 'pinned', 'scenarios',tot,'violating',bad,'pauses',late, first)
