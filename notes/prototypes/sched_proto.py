"""Prototype: deterministic cooperative scheduler over real threads.
Threads are real OS threads but only the baton holder runs. Yield points: LINE events
in chosen code objects (sys.monitoring) + blocking primitives of a shim 'threading'."""
import sys, threading as _th, random, types, time as _time, collections
import os; sys.path.insert(0, os.environ.get('R','/repo'))

class Deadlock(Exception): pass

class Sched:
    def __init__(self, seed):
        self.rng = random.Random(seed)
        self.mu = _th.Lock()
        self.threads = {}       # ident -> T
        self.current = None
        self.trace = []
        self.vnow = 1000.0
        self.steps = 0
    class T:
        def __init__(self, name):
            self.name = name; self.sem = _th.Semaphore(0); self.state='ready'; self.block=None; self.wake_at=None; self.done=False
    def me(self):
        return self.threads.get(_th.get_ident())
    def register_current(self, name):
        t = Sched.T(name); self.threads[_th.get_ident()] = t; return t
    def _runnable(self):
        out=[]
        for t in self.threads.values():
            if t.done: continue
            if t.state=='ready': out.append(t)
            elif t.state=='blocked' and t.block() : out.append(t)
        return out
    def switch(self, loc):
        """called by the baton holder at a yield point"""
        me = self.me()
        if me is None: return
        self.steps += 1
        while True:
            cands = self._runnable()
            sleepers = [t for t in self.threads.values() if not t.done and t.state=='sleep']
            choices = list(cands)
            if sleepers: choices.append('TICK')
            if not choices:
                raise Deadlock('all blocked: ' + ', '.join('%s:%s'%(t.name,t.state) for t in self.threads.values() if not t.done))
            c = self.rng.choice(choices)
            if c == 'TICK':
                t = min(sleepers, key=lambda s: s.wake_at)
                self.vnow = max(self.vnow, t.wake_at); t.state='ready'
                self.trace.append(('tick', self.vnow))
                continue
            break
        c.state='ready'
        if c is me:
            return
        self.trace.append((c.name, loc))
        c.sem.release()
        if not me.done:
            me.sem.acquire()
    def block_until(self, pred, loc):
        me = self.me(); me.state='blocked'; me.block=pred
        self.switch(loc)   # returns when chosen and pred true
        me.state='ready'; me.block=None
    def sleep(self, dt):
        me = self.me(); me.state='sleep'; me.wake_at=self.vnow+dt
        self.switch('sleep')
    def finish(self):
        me = self.me(); me.done=True
        try: self.switch('exit')
        except Deadlock: pass

S = None
class ShimThread:
    def __init__(self, target=None, args=(), kwargs=None, daemon=None, name=None):
        self._target=target; self._args=args; self._kw=kwargs or {}; self._t=None; self._rec=None; self.name=name or 'T%d'%id(self)
    def start(self):
        started=_th.Event()
        def boot():
            rec = S.register_current(getattr(self._target,'__qualname__',self.name)); self._rec=rec
            started.set()
            rec.sem.acquire()
            try: self._target(*self._args, **self._kw)
            finally: S.finish()
        self._t=_th.Thread(target=boot, daemon=True); self._t.start(); started.wait()
        S.switch('thread.start')
    def is_alive(self): return self._rec is not None and not self._rec.done
class ShimRLock:
    def __init__(self): self.owner=None; self.count=0
    def acquire(self, blocking=True, timeout=-1):
        me=_th.get_ident()
        if self.owner not in (None, me):
            S.block_until(lambda: self.owner is None, 'lock')
        self.owner=me; self.count+=1; return True
    def release(self):
        self.count-=1
        if self.count==0: self.owner=None
        S.switch('unlock')
class ShimEvent:
    def __init__(self): self.flag=False; self.gen=0
    def set(self): self.flag=True; self.gen+=1
    def clear(self): self.flag=False
    def wait(self, timeout=None):
        if self.flag: return True
        g=self.gen
        S.block_until(lambda: self.gen!=g, 'event'); return True
shim = types.SimpleNamespace(Thread=ShimThread, RLock=ShimRLock, Event=ShimEvent)

from bardolph.lib import job_control
job_control.threading = shim
TOOL=3
sys.monitoring.use_tool_id(TOOL,'sched')
def on_line(code, line):
    if S is not None and S.me() is not None: S.switch((code.co_name,line))
sys.monitoring.register_callback(TOOL, sys.monitoring.events.LINE, on_line)
def instrument(mod):
    for obj in vars(mod).values():
        if isinstance(obj, type):
            for f in vars(obj).values():
                if isinstance(f, types.FunctionType): sys.monitoring.set_local_events(TOOL, f.__code__, sys.monitoring.events.LINE)
instrument(job_control)

log=[]
class J(job_control.Job):
    def __init__(s,n): s.n=n
    def execute(s):
        log.append(('start',s.n)); S.switch('body'); S.switch('body'); log.append(('end',s.n))
def run(seed):
    global S
    S=Sched(seed); log.clear()
    S.register_current('main')
    jc=job_control.JobControl()
    def client(k):
        for i in range(2): jc.add_job(J('%d.%d'%(k,i)))
    cs=[ShimThread(target=client,args=(k,)) for k in range(2)]
    for c in cs: c.start()
    while any(not t.done for t in S.threads.values() if t is not S.me()):
        S.switch('main-wait')
    return list(log), len(S.trace), jc.has_jobs()
t0=_time.time(); seen=set(); bad=0
for seed in (range(300) if __name__=='__main__' else []):
    l,n,h=run(seed)
    seen.add(tuple(l))
    # monitor: mutual exclusion
    active=None
    for ev,n_ in l:
        if ev=='start':
            if active is not None: bad+=1
            active=n_
        else: active=None
    if h: bad+=1
print('runs 300 distinct logs',len(seen),'violations',bad,'time',_time.time()-t0)
