import warnings; warnings.simplefilter('ignore')
import sys, logging, random
sys.path.insert(0,'/repo')
import sim_proto as sp   # runs its demo at import; fine
from bardolph.controller import light_set, light, lifx_lan_api, i_controller
from bardolph.lib import injection, settings
logging.disable(logging.CRITICAL)
class VT:
    now=1000.0
    @staticmethod
    def time(): return VT.now
light.time = VT
MAXAGE=300
def run(seed):
    r=random.Random(seed)
    names=['a','b','c','d']; groups=['G1','G2','G3']; locs=['L1','L2']
    sp.configure([])
    s=dict(settings.Settings._the_config); s['light_gc_time']=MAXAGE; settings.using(s).configure()
    ls=light_set.LightSet()
    model={}  # name -> (group, loc, seen)
    hist=[]
    for step in range(r.randint(1,12)):
        op=r.choice(['disc','disc','disc','fail','adv','gc'])
        if op=='disc':
            pop=[(n, r.choice(groups), r.choice(locs)) for n in names if r.random()<0.6]
            sp.SimLan.devices=[sp.Dev(n,g,l) for n,g,l in pop]
            ok=ls.discover(); assert ok is True
            for n,g,l in pop: model[n]=(g,l,VT.now)
            hist.append(('disc',pop))
        elif op=='fail':
            d=sp.Dev('x','G1','L1',fail={'get_label':1}); sp.SimLan.devices=[d]
            ok=ls.discover(); hist.append(('fail',ok))
            if ok is not False: return hist,'failed discover returned %r'%ok
        elif op=='adv':
            VT.now += r.choice([10,100,200,301]); hist.append(('adv',VT.now))
        else:
            ls._garbage_collect(); hist.append(('gc',))
            for n in [n for n,(g,l,t) in model.items() if VT.now-t > MAXAGE]: del model[n]
        # compare
        if list(ls.get_light_names())!=sorted(model): return hist,('names',list(ls.get_light_names()),sorted(model))
        for kind,getn,getm,idx in (('group',ls.get_group_names,ls.get_group_lights,0),('loc',ls.get_location_names,ls.get_location_lights,1)):
            exp={}
            for n,v in model.items(): exp.setdefault(v[idx],[]).append(n)
            exp={k:sorted(v) for k,v in exp.items()}
            if list(getn())!=sorted(exp): return hist,(kind+' names',list(getn()),sorted(exp))
            for k,v in exp.items():
                if list(getm(k))!=v: return hist,(kind,k,list(getm(k)),v)
    return hist,None
bad=0
for seed in range(3000):
    h,v=run(seed)
    if v:
        bad+=1
        if bad<4: print(seed,v,h)
print('histories 3000 violations',bad)
