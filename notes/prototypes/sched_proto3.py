import warnings; warnings.simplefilter('ignore')
import sys, types, datetime as _dt, logging
import sched_proto as sp
from bardolph.lib import clock, injection, settings, job_control, i_lib
from bardolph.controller import script_job, i_controller, light_set
from bardolph.fakes import fake_light_api
from bardolph.lib import object_list_output
from bardolph.runtime import runtime_module
from bardolph.vm import machine

class VTime:
    @staticmethod
    def time(): return sp.S.vnow
    @staticmethod
    def sleep(dt): sp.S.sleep(dt)
class VDatetime:
    @staticmethod
    def now():
        return _dt.datetime.fromtimestamp(0) + _dt.timedelta(seconds=sp.S.vnow)
clock.time = VTime; clock.threading = sp.shim; clock.datetime = VDatetime
for m in (clock, machine, script_job):
    sp.instrument(m)

def configure():
    injection.configure()
    settings.using({'sleep_time':0.1,'single_light_discover':True,'use_fakes':True,'log_level':logging.CRITICAL}).configure()
    clock.configure()
    fake_light_api.using_small_set().configure()
    light_set.configure()
    object_list_output.configure()
    runtime_module.configure()

def scenario(seed, src, stop_after):
    sp.S = sp.Sched(seed)
    sp.S.register_current('main')
    configure()
    logging.disable(logging.CRITICAL)
    api = injection.provide(i_controller.LightApi)
    jc = job_control.JobControl()
    job = script_job.ScriptJob.from_string(src)
    assert job.program is not None
    agent = jc.add_job(job)
    # let things run for a random number of steps, then stop
    for _ in range(stop_after):
        sp.S.switch('main-spin')
    ncalls_before = sum(len(l.get_call_list()) for l in api.get_lights())
    try:
        jc.stop_current() if agent.is_running() else None
    except AttributeError as e:
        return ("STOPRAISED", 0, False)
    stopped_running = agent.is_running()
    steps0 = sp.S.steps
    try:
        while agent.is_running() and sp.S.steps - steps0 < 20000:
            sp.S.switch('main-wait')
        res = 'ended' if not agent.is_running() else 'LIVELOCK'
    except sp.Deadlock as e:
        res = 'DEADLOCK ' + str(e)
    ncalls_after = sum(len(l.get_call_list()) for l in api.get_lights())
    return res, ncalls_after - ncalls_before, stopped_running

import collections
if __name__=='__main__':
  for name, src in [('inf', 'repeat begin on all off all end'), ('timed', 'time 0.35 repeat begin on "light_0" end'), ('timeat', 'time at 0:30 on all')]:
      c = collections.Counter()
      for seed in range(150):
          r = scenario(seed, src, seed % 40)
          key = (r[0].split(' ')[0], 'extra>1' if r[1] > 3 else 'ok', r[2])
          c[key]+=1
          if r[0].startswith('DEAD') and c[key]==1: print(name, seed, r)
      print(name, dict(c))
